#!/bin/bash
# Re-runs every registered quick check on the unchanged tree (sequentially) so that the committed
# evidence files come from clean runs of the current code. Refuses to run if /repo is dirty.
cd "$(dirname "$0")"
if ! git -C /repo diff --quiet; then echo "/repo has uncommitted changes"; exit 2; fi
rc=0
for p in C01 C02 C03 C04 C05 C06 C07 C08 C09 C10 C11 C12 C13 C14 C15 C16 C17 C18 C19; do
  out=$(./check $p ${1:-quick} 2>&1); code=$?
  echo "$out" | grep -v "^  shrunk" | tail -2
  [ $code -ne 0 ] && { echo "!! $p exit=$code"; rc=1; }
done
python3-vt validate.py | tail -1
exit $rc
