#!/usr/bin/env python3
"""Regenerates /verif/MANIFEST.json from the table below (run from /verif)."""
import json, sys

BASELINE = "cd /repo && export GOFLAGS=-mod=mod GOPROXY=off GOSUMDB=off GOTOOLCHAIN=local && go build ./... && go test -json -vet=off -count=1 -timeout 25m ./..."

# id -> (engine, level, technique, level text, note, design_ref)
CHECKS = {}
NA = {}

def add(pid, engine, level, technique, text, note, ref):
    CHECKS[pid] = dict(engine=engine, level=level, technique=technique, text=text, note=note, ref=ref)

exec(open('manifest_table.py').read())

checks = []
for pid in sorted(CHECKS):
    c = CHECKS[pid]
    checks.append({
        "property_id": pid,
        "quick_cmd": f"./check {pid} quick",
        "thorough_cmd": f"./check {pid} thorough",
        "evidence_file": f"/verif/evidence/{pid}.json",
        "replay_cmd_template": "./check replay {path}",
        "engine": c["engine"],
        "level_claimed": {"category": c["level"], "text": c["text"], "design_ref": c["ref"]},
        "level_note": c["note"],
        "technique": c["technique"],
    })

m = {
    "version": 1,
    "setup_cmd": "./setup.sh",
    "hooks": {
        "guard": "verif (Go build tag)",
        "enable": "go1.26.8 test -c -tags verif (the simulator module /verif/sim replaces github.com/jrhy/mast with /repo, so every check compiles /repo's current working tree with the tag on)",
        "baseline_off_cmd": BASELINE,
        "source_commits": HOOK_COMMITS,
        "add_only": True,
    },
    "engines": ENGINES,
    "checks": checks,
    "not_applicable": [{"property_id": k, "reason": v} for k, v in sorted(NA.items())],
    "notes": NOTES,
}
json.dump(m, open('MANIFEST.json', 'w'), indent=1)
print("wrote MANIFEST.json with", len(checks), "checks,", len(NA), "not applicable")
