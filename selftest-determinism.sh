#!/bin/bash
# Determinism self-test: every engine, many seeds, each run in separate processes at
# GOMAXPROCS 1 / 4 / 16 (and twice at 16); the per-run lines (event-log hash, tape hash,
# step counts, violation signature) must be identical. Exit 0 = deterministic.
set -u
export GOFLAGS=-mod=mod GOPROXY=off GOSUMDB=off GOTOOLCHAIN=local
V="$(cd "$(dirname "$0")" && pwd)"
B="$V/.build/det-$$"; mkdir -p "$B"; trap 'rm -rf "$B"' EXIT
RUNS="${VERIF_RUNS:-40}"
cd "$V/sim" || exit 2
go1.26.8 test -c -tags verif -o "$B/sim.test" . || exit 2
go1.26.8 test -c -race -tags verif -o "$B/sim-race.test" . || exit 2
go1.26.8 build -o "$B/filechild" ./cmd/filechild || exit 2
export VERIF_BIN_DIR="$B" VERIF_OUT="$B/out"; mkdir -p "$B/out"
rc=0
PROPS="C01,C02,C03,C04,C05,C06,C07,C08,C09,C10,C13,C15,C16,C19,C12,C18"
i=0
for gmp in 1 4 16 16; do
  i=$((i+1))
  GOMAXPROCS=$gmp VERIF_MODE=detrun VERIF_PROPS="$PROPS" VERIF_RUNS="$RUNS" "$B/sim.test" -test.run '^TestVerif$' -test.timeout 0 | grep '^DET' > "$B/det-$i.txt" &
done
wait
for i in 2 3 4; do
  if ! diff -q "$B/det-1.txt" "$B/det-$i.txt" >/dev/null; then echo "NONDETERMINISTIC: run 1 vs run $i"; diff "$B/det-1.txt" "$B/det-$i.txt" | head -10; rc=1; fi
done
echo "history/faultenum/backend engines: $(wc -l < "$B/det-1.txt") runs x 4 processes (GOMAXPROCS 1,4,16,16) compared"
# thread engine (race build): 3 processes
for i in 1 2 3; do
  GORACE="log_path=$B/out/race$i halt_on_error=0 exitcode=0" GOMAXPROCS=$((i*4)) VERIF_MODE=detrun VERIF_PROPS="C11" VERIF_RUNS="$RUNS" "$B/sim-race.test" -test.run '^TestVerif$' -test.timeout 0 | grep '^DET' > "$B/detr-$i.txt" &
done
wait
for i in 2 3; do
  if ! diff -q "$B/detr-1.txt" "$B/detr-$i.txt" >/dev/null; then echo "NONDETERMINISTIC (threads): run 1 vs run $i"; diff "$B/detr-1.txt" "$B/detr-$i.txt" | head -10; rc=1; fi
done
echo "thread engine: $(wc -l < "$B/detr-1.txt") runs x 3 processes compared"
# static scan for forgotten nondeterminism in decision paths
if grep -n "time\.Now\|math/rand\"\|sync\.Map\|range .*\.m {" "$V"/sim/*.go | grep -v "_test.go" | grep -v "time.Since\|start := time.Now\|t0 := time.Now\|UnixNano\|math/rand/v2" ; then echo "(review the lines above: wall clock / global rand / sync.Map.Range in harness code)"; fi
[ $rc = 0 ] && echo "determinism self-test: OK"
exit $rc
