package sim

import (
	"fmt"
	"sort"
	"strings"
	"sync"

	"github.com/jrhy/mast"
)

// CacheViolation is a mutation of (or illegal state in) a cached node object,
// detected by the monitor that wraps every cache kind.
type CacheViolation struct {
	Clause string
	Key    string
	Detail string
}

// SimCache wraps a node cache (real ARC, or the simulated "chaos" cache) with a
// monitor that fingerprints every cached object when it is first seen and
// re-checks the fingerprint on every later Get and at every step end.
type SimCache struct {
	mu    sync.Mutex
	kind  string
	inner mast.NodeCache // nil for chaos/map kinds
	m     map[string]interface{}
	order []string // insertion order for the map kinds (deterministic eviction choice)
	ch    *Chooser // chaos decisions
	// monitor
	fp      map[string]string      // cache key -> content fingerprint at first sight
	obj     map[string]interface{} // cache key -> object last seen under that key
	Viol    []CacheViolation
	Stats   map[string]int
	monitor bool
}

// NewSimCache builds a cache of the given kind: "none" (returns nil), "arc-big",
// "arc-tiny:N", "map" (never evicts, no chooser) or "chaos".
func NewSimCache(kind string, ch *Chooser) *SimCache {
	c := &SimCache{kind: kind, fp: map[string]string{}, obj: map[string]interface{}{}, Stats: map[string]int{}, ch: ch, monitor: true}
	switch {
	case kind == "none" || kind == "":
		return nil
	case kind == "arc-big":
		c.inner = mast.NewNodeCache(4096)
	case strings.HasPrefix(kind, "arc-tiny:"):
		n := 2
		fmt.Sscanf(kind, "arc-tiny:%d", &n)
		if n < 1 {
			n = 1
		}
		c.inner = mast.NewNodeCache(n)
	case kind == "map" || kind == "chaos":
		c.m = map[string]interface{}{}
	default:
		panic("unknown cache kind " + kind)
	}
	return c
}

func nodeFingerprint(v interface{}) (content string, info mast.VerifNodeInfo, ok bool) {
	info, ok = mast.VerifNode(v)
	if !ok {
		return "", info, false
	}
	var sb strings.Builder
	for i := range info.Keys {
		fmt.Fprintf(&sb, "%T:%v=%T:%v;", info.Keys[i], info.Keys[i], info.Values[min(i, len(info.Values)-1)], valueAt(info.Values, i))
	}
	sb.WriteString("|")
	fmt.Fprintf(&sb, "nv=%d|", len(info.Values))
	for _, l := range info.Links {
		sb.WriteString(l)
		sb.WriteString(",")
	}
	return sb.String(), info, true
}

func valueAt(vs []interface{}, i int) interface{} {
	if i < len(vs) {
		return vs[i]
	}
	return "<missing>"
}

func (c *SimCache) note(key string, v interface{}, where string) {
	if !c.monitor {
		return
	}
	fp, _, ok := nodeFingerprint(v)
	if !ok {
		return
	}
	if prev, seen := c.obj[key]; seen && prev == v {
		if c.fp[key] != fp {
			c.Viol = append(c.Viol, CacheViolation{"cached-node-mutated", key, fmt.Sprintf("at %s: was %q now %q", where, c.fp[key], fp)})
			c.fp[key] = fp
		}
		return
	}
	c.obj[key] = v
	c.fp[key] = fp
}

// CheckAll re-fingerprints every object the monitor has seen (call at step
// ends, when no operation is in flight) and checks the quiescent-state
// invariants of a cached node: clean, shared, known source equal to the
// key's hash, and no in-memory child pointers.
func (c *SimCache) CheckAll() {
	if c == nil || !c.monitor {
		return
	}
	c.mu.Lock()
	defer c.mu.Unlock()
	keys := make([]string, 0, len(c.obj))
	for k := range c.obj {
		keys = append(keys, k)
	}
	sort.Strings(keys)
	for _, k := range keys {
		v := c.obj[k]
		fp, info, ok := nodeFingerprint(v)
		if !ok {
			continue
		}
		if fp != c.fp[k] {
			c.Viol = append(c.Viol, CacheViolation{"cached-node-mutated", k, fmt.Sprintf("at step end: was %q now %q", c.fp[k], fp)})
			c.fp[k] = fp
		}
		if info.Dirty {
			// predictor only (not an observable violation by itself): counted, not reported
			c.Stats["warn-cached-node-dirty"]++
		}
		hash := k[strings.LastIndex(k, "/")+1:]
		if info.Source != "" && info.Source != hash {
			c.Stats["warn-cached-node-wrong-source"]++
		}
		for _, l := range info.Links {
			if strings.HasPrefix(l, "p:") {
				c.Stats["warn-cached-node-has-memory-child"]++
				break
			}
		}
	}
}

// Forget drops monitor state (used on Restart: the process state is gone).
func (c *SimCache) Forget() {
	c.mu.Lock()
	c.fp = map[string]string{}
	c.obj = map[string]interface{}{}
	c.mu.Unlock()
}

func (c *SimCache) Add(key, value interface{}) {
	c.mu.Lock()
	defer c.mu.Unlock()
	k := key.(string)
	c.Stats["add"]++
	c.note(k, value, "Add")
	if c.inner != nil {
		c.inner.Add(key, value)
		return
	}
	if _, ok := c.m[k]; !ok {
		c.order = append(c.order, k)
	}
	c.m[k] = value
}

func (c *SimCache) evict(k string) {
	delete(c.m, k)
	for i, o := range c.order {
		if o == k {
			c.order = append(c.order[:i], c.order[i+1:]...)
			break
		}
	}
	c.Stats["evict"]++
}

func (c *SimCache) Contains(key interface{}) bool {
	c.mu.Lock()
	defer c.mu.Unlock()
	c.Stats["contains"]++
	if c.inner != nil {
		return c.inner.Contains(key)
	}
	k := key.(string)
	_, ok := c.m[k]
	if ok && c.kind == "chaos" && c.ch.Chance(1, 4) {
		c.evict(k)
		return false
	}
	return ok
}

func (c *SimCache) Get(key interface{}) (interface{}, bool) {
	c.mu.Lock()
	defer c.mu.Unlock()
	c.Stats["get"]++
	k := key.(string)
	if c.inner != nil {
		v, ok := c.inner.Get(key)
		if ok {
			c.Stats["hit"]++
			c.note(k, v, "Get")
		} else {
			c.Stats["miss"]++
			if _, seen := c.obj[k]; seen {
				c.Stats["miss-after-evict"]++
			}
		}
		return v, ok
	}
	v, ok := c.m[k]
	if ok && c.kind == "chaos" && c.ch.Chance(1, 3) {
		c.evict(k)
		c.Stats["miss"]++
		c.Stats["miss-after-evict"]++
		return nil, false
	}
	if ok {
		c.Stats["hit"]++
		c.note(k, v, "Get")
	} else {
		c.Stats["miss"]++
	}
	return v, ok
}

// asNodeCache converts a possibly-nil *SimCache to the interface without
// producing a non-nil interface holding a nil pointer.
func asNodeCache(c *SimCache) mast.NodeCache {
	if c == nil {
		return nil
	}
	return c
}
