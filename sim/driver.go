package sim

import (
	"encoding/json"
	"fmt"
	"os"
	"os/exec"
	"path/filepath"
	"sort"
	"strconv"
	"strings"
	"sync"
	"time"
)

// PropInfo is the static description of how each property is decided.
type PropInfo struct {
	Engine string
	Level  string
	Rule   string
	QuickS int // per-shard time budget, seconds
	ThorS  int
	Assumptions []string
	Components  map[string][]string
}

var commonAssumptions = []string{
	"harness reference model (sorted map over abstract key indexes, order written in the harness)",
	"SimDisk/SimCache stubs stand in for real back ends; mast core, flush worker pool and ARC cache are the real code built from /repo's working tree with -tags verif",
	"testing/synctest quiescence detection (go1.26.8) for deterministic scheduling of concurrent Store calls",
	"sampling, not proof: seeded search over histories, schedules and fault sequences",
}

var stdComponents = map[string][]string{
	"real": {"mast core (insert/delete/get/iter/diff/cursor/clone)", "flush worker pool", "LoadMast/MakeRoot", "hashicorp ARC cache (arc-* kinds)", "node codecs"},
	"stub": {"SimDisk (Persist)", "chaos/map cache", "user callbacks (Marshal/Unmarshal/KeyCompare wrappers)"},
}

var propTable = map[string]PropInfo{
	"C01": {Engine: "history", Level: "exploration", QuickS: 20, ThorS: 420,
		Rule: "one evaluation = one seeded history (8-70 explicit ops over 1-4 trees) run against the sorted-map model with full contents re-read after every op; non-trivial = >=5 ops executed, not truncated, and at least one successful persist (or an in-memory tree); distinct = hash of (config, op kinds/trees/keys)"},
	"C02": {Engine: "history", Level: "exploration", QuickS: 20, ThorS: 420,
		Rule: "one evaluation = one seeded history with clones, cursors, forks, persists and reloads sharing one disk and one cache; after every op every captured version is re-observed and compared with its observation at capture, and every cached node object is re-fingerprinted; non-trivial = at least one captured version was re-observed after a later op; distinct = hash of (config, op sequence)"},
	"C03": {Engine: "history", Level: "exploration", QuickS: 20, ThorS: 420,
		Rule: "one evaluation = one seeded history whose MakeRoot calls run under the quiescence scheduler: every Store is parked and released one at a time in a chooser-picked order with chooser-picked outcomes (ok/fail/ack-lost/stall); also: the caller's context cancelled after N completed Stores, two trees holding the same new nodes persisted as two goroutines (each root judged at the quiescent point right after its call returned), interrupted replications rebuilt on the other store, two stores sharing one cache under store names that differ in the port or a trailing slash only; non-trivial = a flush with >=2 Stores in flight that completed out of name order or had an injected failure; distinct = hash of (config, op sequence) "},
	"C04": {Engine: "history", Level: "exploration", QuickS: 20, ThorS: 420,
		Rule: "one evaluation = one seeded history; at every MakeRoot the persisted graph is decoded independently and compared with the reference MST (height rule, shape), and 'canon' ops rebuild the same contents through a different history (shuffled inserts, extra keys deleted, mid-way reload, fresh store) and compare roots; non-trivial = at least one such comparison ran; distinct = hash of (config, op sequence)"},
	"C05": {Engine: "history", Level: "exploration", QuickS: 20, ThorS: 420,
		Rule: "one evaluation = one seeded history with persist/reload/restart cycles (direct, via JSON of the Root, after restart), store faults in one persist out of six, swarm of key/value types (incl. typed nil pointers, 1 MiB values, numbers in interface fields), marshalers (JSON, gob, a second custom one, one-sided callbacks), example-type configurations, branch factors 2-16 and threshold sizes bf^k+1; non-trivial = at least one reload or persisted-root read-back was compared; distinct = hash of (config, op sequence)"},
	"C06": {Engine: "history", Level: "exploration", QuickS: 20, ThorS: 420,
		Rule: "one evaluation = one seeded history with diff ops over ordered pairs of live handles (trees, clones, reloaded roots, nil old); each diff is compared (callback and cursor interface) with the model difference; non-trivial = at least one diff compared; distinct = hash of (config, op sequence)"},
	"C07": {Engine: "history", Level: "exploration", QuickS: 20, ThorS: 420,
		Rule: "one evaluation = one seeded history with DiffLinks over ordered pairs of persisted versions; reach sets by observation at the disk seam; replica-sync run on a second disk; non-trivial = at least one DiffLinks judged; distinct = hash of (config, op sequence)"},
	"C08": {Engine: "history", Level: "exploration", QuickS: 20, ThorS: 420,
		Rule: "one evaluation = one seeded history; every Store call passes the write monitor (name = b64url(BLAKE2b-256(bytes)) with an independent hash; same name never with different bytes; same logical content never with different bytes) and every returned root passes the root registry; non-trivial = at least one root judged; distinct = hash of (config, op sequence)"},
	"C09": {Engine: "history", Level: "exploration", QuickS: 20, ThorS: 420,
		Rule: "one evaluation = one seeded history; at every MakeRoot every node reachable from the root is decoded with the independent decoder and all shape clauses are checked relative to Root.Height; non-trivial = at least one persisted version walked; distinct = hash of (config, op sequence)"},
	"C10": {Engine: "history", Level: "exploration", QuickS: 20, ThorS: 420,
		Rule: "one evaluation = one seeded history with cursor scripts (min/max/ceil then forward/backward steps) and SeekIter probes compared step by step with a sorted list; non-trivial = at least one cursor position or seek compared; distinct = hash of (config, op sequence)"},
	"C13": {Engine: "history", Level: "exploration", QuickS: 20, ThorS: 420,
		Rule: "one evaluation = one seeded history; each MakeRoot's Store set is compared with reach(returned root), with the base version's decoded node key ranges and with the per-key write budget; IsDirty judged after every op; non-trivial = at least one judgement; distinct = hash of (config, op sequence)"},
	"C15": {Engine: "history", Level: "exploration", QuickS: 20, ThorS: 420,
		Rule: "one evaluation = one seeded history; for ordered pairs of persisted versions, distinct names Loaded during DiffLinks / DiffIter / NextEntry loop are compared with 2*D+2 (D from observed reach sets): cache-less, after a Clone of a handle, through two Persist values over one store, with the new side on a replica store and cold caches on both sides, and with one or both sides through the shared cache; non-trivial = at least one pair judged; distinct = hash of (config, op sequence)"},
	"C16": {Engine: "history", Level: "exploration", QuickS: 20, ThorS: 420,
		Rule: "one evaluation = one seeded history; probe ops open a persisted version cache-less and count Load calls of LoadMast/Clone/Get/Insert/Delete against the height bounds (one probed call in six has one read served truncated without an error: it may fail, but not exceed its bound); non-trivial = at least one probe judged; distinct = hash of (config, op sequence)"},
}

func envInt(k string, def int) int {
	if v := os.Getenv(k); v != "" {
		if n, err := strconv.Atoi(v); err == nil {
			return n
		}
	}
	return def
}

func envU64(k string, def uint64) uint64 {
	if v := os.Getenv(k); v != "" {
		if n, err := strconv.ParseUint(v, 10, 64); err == nil {
			return n
		}
		if n, err := strconv.ParseInt(v, 10, 64); err == nil {
			return uint64(n)
		}
	}
	return def
}

// Evidence is /verif/evidence/<id>.json.
type Evidence struct {
	PropertyID  string                 `json:"property_id"`
	Tier        string                 `json:"tier"`
	Seed        int64                  `json:"seed"`
	Level       string                 `json:"level"`
	Coverage    map[string]interface{} `json:"coverage"`
	Assumptions []string               `json:"assumptions"`
	WallS       float64                `json:"wall_s"`
	Violations  int                    `json:"violations"`
}

// Driver runs all shards of one property check and merges their reports.
// Exit codes: 0 property held (known findings allowed), 1 violation, 2 harness trouble.
func Driver() int {
	prop := os.Getenv("VERIF_PROP")
	tier := os.Getenv("VERIF_TIER")
	if tier == "" {
		tier = "quick"
	}
	seed := envU64("VERIF_SEED", 20261004)
	info, ok := propTable[prop]
	if !ok {
		fmt.Printf("unknown property %q\n", prop)
		return 2
	}
	shards := envInt("VERIF_SHARDS", 16)
	budget := info.QuickS
	if tier == "thorough" {
		budget = info.ThorS
	}
	budget = envInt("VERIF_BUDGET_S", budget)
	outDir := os.Getenv("VERIF_OUT")
	if outDir == "" {
		outDir = "/verif/.build/out"
	}
	os.MkdirAll(outDir, 0o755)
	if info.Engine == "threads" {
		// race reports go to per-process log files; the process keeps running and exits normally
		os.Setenv("GORACE", fmt.Sprintf("log_path=%s halt_on_error=0 exitcode=0", filepath.Join(outDir, "race")))
	}
	verifDir := os.Getenv("VERIF_DIR")
	if verifDir == "" {
		verifDir = "/verif"
	}
	replayDir := filepath.Join(verifDir, "replays")
	if old, _ := filepath.Glob(filepath.Join(replayDir, prop+"-*.json")); len(old) > 0 {
		for _, f := range old {
			os.Remove(f)
		}
	}
	start := time.Now()
	fmt.Printf("verif: property=%s tier=%s VERIF_SEED=%d shards=%d budget=%ds engine=%s\n", prop, tier, seed, shards, budget, info.Engine)

	var wg sync.WaitGroup
	reports := make([]*ShardReport, shards)
	errs := make([]error, shards)
	watchdog := time.Duration(budget)*time.Second*4 + 1100*time.Second
	for i := 0; i < shards; i++ {
		wg.Add(1)
		go func(i int) {
			defer wg.Done()
			rp := filepath.Join(outDir, fmt.Sprintf("shard-%s-%d.json", prop, i))
			os.Remove(rp)
			bin := os.Args[0]
			extraEnv := []string{}
			if rb := os.Getenv("VERIF_RACE_BIN"); rb != "" && info.Engine == "history" && i >= shards-shards/4 {
				bin = rb
				extraEnv = append(extraEnv, fmt.Sprintf("GORACE=log_path=%s halt_on_error=0 exitcode=0", filepath.Join(outDir, fmt.Sprintf("race-%d", i))), "VERIF_RACE_PASS=1")
			}
			if hb := os.Getenv("VERIF_386_BIN"); hb != "" && prop == "C14" {
				extraEnv = append(extraEnv, fmt.Sprintf("VERIF_IMG_SHARDS=%d", shards-1))
				if i == shards-1 {
					bin = hb
					extraEnv = append(extraEnv, "VERIF_HOST32=1")
				}
			}
			cmd := exec.Command(bin, "-test.run", "^TestVerif$", "-test.timeout", "0")
			cmd.Env = append(append(os.Environ(), extraEnv...),
				"VERIF_MODE=shard", "VERIF_PROP="+prop, "VERIF_TIER="+tier,
				fmt.Sprintf("VERIF_SEED=%d", seed), fmt.Sprintf("VERIF_SHARD=%d", i), fmt.Sprintf("VERIF_SHARDS=%d", shards),
				fmt.Sprintf("VERIF_BUDGET_S=%d", budget), "VERIF_REPORT="+rp, "VERIF_REPLAY_DIR="+replayDir,
				"GOMAXPROCS=2")
			lp := filepath.Join(outDir, fmt.Sprintf("shard-%s-%d.log", prop, i))
			lf, _ := os.Create(lp)
			cmd.Stdout = lf
			cmd.Stderr = lf
			if err := cmd.Start(); err != nil {
				errs[i] = err
				return
			}
			done := make(chan error, 1)
			go func() { done <- cmd.Wait() }()
			select {
			case err := <-done:
				if err != nil {
					errs[i] = fmt.Errorf("shard %d: %v (log %s)", i, err, lp)
				}
			case <-time.After(watchdog):
				cmd.Process.Kill()
				errs[i] = fmt.Errorf("shard %d: watchdog after %v (log %s)", i, watchdog, lp)
			}
			lf.Close()
			b, err := os.ReadFile(rp)
			if err != nil {
				if errs[i] == nil {
					errs[i] = fmt.Errorf("shard %d wrote no report", i)
				}
				return
			}
			var r ShardReport
			if err := json.Unmarshal(b, &r); err != nil {
				errs[i] = err
				return
			}
			reports[i] = &r
		}(i)
	}
	wg.Wait()
	trouble := false
	for _, e := range errs {
		if e != nil {
			fmt.Printf("HARNESS-TROUBLE: %v\n", e)
			trouble = true
		}
	}
	// merge
	merged := newShardReport(prop, info.Engine, -1, tier, seed)
	nt := map[uint64]bool{}
	states := map[uint64]bool{}
	scheds := map[uint64]bool{}
	exhaustive := true
	any := false
	for _, r := range reports {
		if r == nil {
			continue
		}
		any = true
		merged.Evaluations += r.Evaluations
		merged.Steps += r.Steps
		merged.Ops += r.Ops
		merged.OracleEvals += r.OracleEvals
		for _, h := range r.NonTrivial {
			nt[h] = true
		}
		for _, h := range r.States {
			states[h] = true
		}
		for _, h := range r.Schedules {
			scheds[h] = true
		}
		for k, v := range r.Faults {
			merged.Faults[k] += v
		}
		for k, v := range r.Probes {
			merged.Probes[k] += v
		}
		for k, v := range r.Max {
			if v > merged.Max[k] {
				merged.Max[k] = v
			}
		}
		for k, v := range r.Truncated {
			merged.Truncated[k] += v
		}
		for k, v := range r.KnownHits {
			merged.KnownHits[k] += v
			merged.KnownWhat[k] = r.KnownWhat[k]
		}
		if r.MaxInflight > merged.MaxInflight {
			merged.MaxInflight = r.MaxInflight
		}
		if len(merged.Samples) < 3 {
			merged.Samples = append(merged.Samples, r.Samples...)
		}
		merged.Violations = append(merged.Violations, r.Violations...)
		if !r.Exhaustive {
			exhaustive = false
		}
		if r.Note != "" && merged.Note == "" {
			merged.Note = r.Note
		}
	}
	if len(merged.Samples) > 3 {
		merged.Samples = merged.Samples[:3]
	}
	wall := time.Since(start).Seconds()

	// confirm violations in a fresh process
	code := 0
	seen := map[string]bool{}
	var vlines []string
	for i := range merged.Violations {
		v := &merged.Violations[i]
		if seen[v.Signature] {
			continue
		}
		seen[v.Signature] = true
		ok, out := confirmReplay(v.Replay, v.Signature)
		if !ok {
			// The fresh process may name the same defect through another oracle of the same
			// property (the race detector reports a racing pair once per process, so inside a
			// shard a later oracle can be the first to speak): still a violation shown by that
			// replay file, unless what it shows is a listed known finding.
			if i := strings.Index(out, "REPLAY-RESULT: reproduced signature="+prop+"/"); i >= 0 {
				rest := out[i+len("REPLAY-RESULT: reproduced signature="):]
				if j := strings.IndexAny(rest, " \n"); j > 0 {
					sig2 := rest[:j]
					known, _ := LoadKnown(knownPath())
					if k, isKnown := known[sig2]; isKnown {
						merged.KnownHits[sig2]++
						merged.KnownWhat[sig2] = k.Finding
						continue
					}
					v.Detail = fmt.Sprintf("%s\n  (in a fresh process the replay file reproduces as %s)", v.Detail, sig2)
					ok = true
				}
			}
		}
		v.Confirmed = ok
		if ok {
			vlines = append(vlines, fmt.Sprintf("VIOLATION property=%s replay=%s", prop, v.Replay))
			fmt.Printf("  signature: %s\n  detail: %s\n  shrunk: %d -> %d ops\n", v.Signature, v.Detail, v.OpsBefore, v.OpsAfter)
			code = 1
		} else {
			fmt.Printf("HARNESS-TROUBLE: violation %s did not reproduce from %s in a fresh process:\n%s\n", v.Signature, v.Replay, out)
			trouble = true
		}
	}
	known := make([]string, 0, len(merged.KnownHits))
	for k := range merged.KnownHits {
		known = append(known, k)
	}
	sort.Strings(known)
	for _, k := range known {
		fmt.Printf("KNOWN-FINDING: property=%s %s — %s (hit %d times)\n", prop, k, merged.KnownWhat[k], merged.KnownHits[k])
	}
	for _, l := range vlines {
		fmt.Println(l)
	}

	if any {
		ev := Evidence{PropertyID: prop, Tier: tier, Seed: int64(seed), Level: info.Level, WallS: wall, Violations: len(vlines)}
		ev.Assumptions = append(append([]string(nil), commonAssumptions...), info.Assumptions...)
		comps := info.Components
		if comps == nil {
			comps = stdComponents
		}
		hours := wall / 3600
		if hours <= 0 {
			hours = 1e-9
		}
		samples := make([]interface{}, 0, len(merged.Samples))
		for _, s := range merged.Samples {
			var x interface{}
			json.Unmarshal(s, &x)
			samples = append(samples, x)
		}
		if len(samples) == 0 {
			samples = append(samples, "no non-trivial sample captured in this run")
		}
		ev.Coverage = map[string]interface{}{
			"evaluations":              merged.Evaluations,
			"distinct_nontrivial":      len(nt),
			"rule":                     info.Rule,
			"samples":                  samples,
			"distinct_final_states":    len(states),
			"distinct_flush_schedules": len(scheds),
			"distinct_schedules_note":  "distinct (completion order x outcome) sequences of flushes with >= 2 concurrent Stores, as released by the quiescence scheduler",
			"runs_per_hour":            int(float64(merged.Evaluations) / hours),
			"seeds":                    map[string]interface{}{"VERIF_SEED": seed, "derivation": "run seed = splitmix64(VERIF_SEED, property, shard, run index)", "shards": shards, "runs": merged.Evaluations},
			"sim_steps_total":          merged.Steps,
			"simulated_time_note":      "mast has no clock; simulated time is the logical step count (seam calls + scheduler releases)",
			"ops_executed":             merged.Ops,
			"oracle_evaluations":       merged.OracleEvals,
			"faults_fired":             merged.Faults,
			"probes":                   merged.Probes,
			"maxima":                   merged.Max,
			"max_inflight_stores":      merged.MaxInflight,
			"truncated_unrelated":      merged.Truncated,
			"known_findings_hit":       merged.KnownHits,
			"components":               comps,
			"exhaustive":               exhaustive,
			"violations_found":         merged.Violations,
		}
		if merged.Note != "" {
			ev.Coverage["note"] = merged.Note
		}
		if info.Level == "other" {
			ev.Coverage["explanation"] = info.Rule
		}
		evDir := filepath.Join(verifDir, "evidence")
		if alt := os.Getenv("VERIF_EVIDENCE_DIR"); alt != "" {
			evDir = alt // development aid (seeded-change runs must not overwrite the committed evidence)
		}
		os.MkdirAll(evDir, 0o755)
		if err := writeJSON(filepath.Join(evDir, prop+".json"), ev); err != nil {
			fmt.Printf("HARNESS-TROUBLE: writing evidence: %v\n", err)
			trouble = true
		}
		fmt.Printf("verif: %s %s: %d runs, %d distinct non-trivial, %d ops, %d oracle evaluations, faults %v, wall %.1fs\n", prop, tier, merged.Evaluations, len(nt), merged.Ops, merged.OracleEvals, merged.Faults, wall)
	}
	if code == 1 {
		return 1
	}
	if trouble || !any {
		return 2
	}
	return 0
}

// confirmReplay re-executes a replay file in a fresh process; it must report the same signature.
func confirmReplay(path, sig string) (bool, string) {
	bin := os.Args[0]
	env := append(os.Environ(), "VERIF_MODE=replay", "VERIF_REPLAY="+path)
	if hb := os.Getenv("VERIF_386_BIN"); hb != "" && strings.HasSuffix(sig, "/on-32-bit-host") {
		bin = hb
		env = append(env, "VERIF_HOST32=1")
	}
	cmd := exec.Command(bin, "-test.run", "^TestVerif$", "-test.timeout", "0")
	cmd.Env = env
	out, _ := cmd.CombinedOutput()
	s := string(out)
	return strings.Contains(s, "REPLAY-RESULT: reproduced signature="+sig+" "), s
}
