package sim

import (
	"sync"
	"fmt"
	"math/rand/v2"
)

// splitmix64 derives independent seeds from one integer.
func splitmix64(x uint64) uint64 {
	x += 0x9E3779B97F4A7C15
	z := x
	z = (z ^ (z >> 30)) * 0xBF58476D1CE4E5B9
	z = (z ^ (z >> 27)) * 0x94D049BB133111EB
	return z ^ (z >> 31)
}

func mixSeed(seed uint64, parts ...uint64) uint64 {
	s := splitmix64(seed)
	for _, p := range parts {
		s = splitmix64(s ^ splitmix64(p))
	}
	return s
}

func strSeed(s string) uint64 {
	return fnv64([]byte(s))
}

func fnv64(b []byte) uint64 {
	h := uint64(14695981039346656037)
	for _, c := range b {
		h ^= uint64(c)
		h *= 1099511628211
	}
	return h
}

type hasher struct{ h uint64 }

func newHasher() *hasher { return &hasher{14695981039346656037} }
func (h *hasher) Str(s string) {
	for i := 0; i < len(s); i++ {
		h.h ^= uint64(s[i])
		h.h *= 1099511628211
	}
	h.h ^= 0xff
	h.h *= 1099511628211
}
func (h *hasher) Int(v int) { h.Str(fmt.Sprintf("%d", v)) }
func (h *hasher) Sum() uint64 { return h.h }

// Chooser is the only source of in-run choices. In generate mode it draws from
// a PCG seeded from the run seed and records every value on a tape; in replay
// mode it reads the tape (falling back to the PCG when the tape is exhausted,
// and reducing out-of-range values mod n). Logging never draws.
type Chooser struct {
	// draws come from the scheduler and, for the chooser-evicting cache, from whichever goroutine
	// of the code under test calls the cache; the quiescence protocol already orders them, the
	// lock only tells the race detector so
	mu     sync.Mutex
	rng    *rand.Rand
	tape   []int
	pos    int
	replay bool
	Draws  int
}

func NewChooser(seed uint64) *Chooser {
	return &Chooser{rng: rand.New(rand.NewPCG(seed, splitmix64(seed)))}
}

func NewReplayChooser(seed uint64, tape []int) *Chooser {
	c := NewChooser(seed)
	c.tape = append([]int(nil), tape...)
	c.replay = true
	return c
}

func (c *Chooser) Intn(n int) int {
	if n <= 1 {
		return 0
	}
	c.mu.Lock()
	defer c.mu.Unlock()
	c.Draws++
	if c.replay {
		if c.pos < len(c.tape) {
			v := c.tape[c.pos]
			c.pos++
			if v < 0 {
				v = -v
			}
			return v % n
		}
		// exhausted tape: deterministic fallback, and extend the tape so
		// that a re-recorded tape is complete.
		v := c.rng.IntN(n)
		c.tape = append(c.tape, v)
		c.pos++
		return v
	}
	v := c.rng.IntN(n)
	c.tape = append(c.tape, v)
	return v
}

// Chance returns true with probability num/den.
func (c *Chooser) Chance(num, den int) bool { return c.Intn(den) < num }

func (c *Chooser) Tape() []int {
	c.mu.Lock()
	defer c.mu.Unlock()
	return append([]int(nil), c.tape...)
}

// Gen is a plain seeded generator used for up-front generation of explicit
// operation lists (not recorded: the ops themselves are the record).
type Gen struct{ r *rand.Rand }

func NewGen(seed uint64) *Gen { return &Gen{rand.New(rand.NewPCG(seed, splitmix64(seed^0xabcdef)))} }
func (g *Gen) Intn(n int) int {
	if n <= 1 {
		return 0
	}
	return g.r.IntN(n)
}
func (g *Gen) Chance(num, den int) bool { return g.Intn(den) < num }
func (g *Gen) Range(lo, hi int) int     { return lo + g.Intn(hi-lo+1) }
func (g *Gen) Pick(ws []int) int {
	tot := 0
	for _, w := range ws {
		tot += w
	}
	if tot == 0 {
		return 0
	}
	x := g.Intn(tot)
	for i, w := range ws {
		if x < w {
			return i
		}
		x -= w
	}
	return len(ws) - 1
}
func (g *Gen) U64() uint64 { return g.r.Uint64() }
