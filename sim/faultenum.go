package sim

import (
	"encoding/json"
	"errors"
	"fmt"
	"reflect"
	"sort"
	"strings"
	"testing"
	"time"

	"github.com/jrhy/mast"
)

// C12 engine: fault enumeration on top of the history engine.
//
// For each operation j of a sampled history: run the prefix, execute op j once
// fault-free while counting the seam calls it makes (Persist.Load, KeyCompare,
// Marshal, Unmarshal); then, for every such call i, re-execute the same prefix in
// a fresh world (deterministic replay makes the fork exact) and run op j with
// call i failing. If op j then returns an error, the tree must be unchanged
// (contents, size, height), and op j must succeed with the normal result when
// retried with the fault cleared.

var (
	ErrInjCompare   = errors.New("sim: injected key-compare failure")
	ErrInjMarshal   = errors.New("sim: injected marshal failure")
	ErrInjUnmarshal = errors.New("sim: injected unmarshal failure")
)

// seamCounters count callback calls and can fail the i-th call of a window.
type seamCounters struct {
	cmp, mar, unm          int
	failCmp, failMar, failUnm int
	fired                  map[string]int
	inCmp                  int  // depth of KeyCompare calls in progress
	marOutsideCmpOnly      bool // count (and fail) only Marshal calls made outside any comparison
}

func (w *World) installCallbackFaults() {
	sc := &seamCounters{fired: map[string]int{}}
	w.seams = sc
	baseMar := w.cfg.MarshalFn()
	baseUnm := w.cfg.UnmarshalFn()
	mar := func(v interface{}) ([]byte, error) {
		if sc.marOutsideCmpOnly && sc.inCmp > 0 {
			return baseMar(v)
		}
		sc.mar++
		if sc.failMar != 0 && sc.mar == sc.failMar {
			sc.fired["marshal-fail"]++
			return nil, ErrInjMarshal
		}
		return baseMar(v)
	}
	unm := func(b []byte, v interface{}) error {
		sc.unm++
		if sc.failUnm != 0 && sc.unm == sc.failUnm {
			sc.fired["unmarshal-fail"]++
			return ErrInjUnmarshal
		}
		return baseUnm(b, v)
	}
	baseCmp := mast.DefaultKeyCompare(mar)
	cmp := func(a, b interface{}) (int, error) {
		sc.cmp++
		if sc.failCmp != 0 && sc.cmp == sc.failCmp {
			sc.fired["compare-fail"]++
			return 0, ErrInjCompare
		}
		sc.inCmp++
		c, err := baseCmp(a, b)
		sc.inCmp--
		if w.cfg.CmpScale != 0 {
			c *= w.cfg.CmpScale
		}
		return c, err
	}
	w.cb = &Callbacks{Marshal: mar, Unmarshal: unm, KeyCompare: cmp}
	w.layerFn = mast.DefaultLayer(baseMar)
}

func (sc *seamCounters) reset() {
	sc.cmp, sc.mar, sc.unm = 0, 0, 0
	sc.failCmp, sc.failMar, sc.failUnm = 0, 0, 0
}

// faultable reports whether an op kind is covered by C12.
func faultable(k string) bool {
	switch k {
	case "ins", "del", "get", "iter", "seek", "diff", "clone", "cur":
		return true
	}
	return false
}

// rawExec performs op without judging and returns the call's outcome plus the
// target tree (nil if the op does not resolve).
func (w *World) rawExec(op *Op) (t *Tree, res callResult, ok bool) {
	switch op.K {
	case "ins":
		t = w.tree(op.T)
		if t == nil || !w.keyOK(op.Key) {
			return nil, res, false
		}
		res = guard(func() error { return t.m.Insert(ctx, w.kd.Key(op.Key), w.vd.Val(op.Val)) })
	case "del":
		t = w.tree(op.T)
		if t == nil || !w.keyOK(op.Key) {
			return nil, res, false
		}
		res = guard(func() error { return t.m.Delete(ctx, w.kd.Key(op.Key), w.vd.Val(op.Val)) })
	case "get":
		t = w.tree(op.T)
		if t == nil || !w.keyOK(op.Key) {
			return nil, res, false
		}
		res = guard(func() error {
			if w.vd.Name == "nil" {
				_, err := t.m.Get(ctx, w.kd.Key(op.Key), nil)
				return err
			}
			pv := reflect.New(reflect.TypeOf(w.vd.Like()))
			_, err := t.m.Get(ctx, w.kd.Key(op.Key), pv.Interface())
			return err
		})
	case "iter":
		t = w.tree(op.T)
		if t == nil {
			return nil, res, false
		}
		res = guard(func() error {
			return t.m.Iter(ctx, func(k, v interface{}) error { return nil })
		})
	case "seek":
		t = w.tree(op.T)
		if t == nil || !w.keyOK(op.Key) {
			return nil, res, false
		}
		res = guard(func() error {
			return t.m.SeekIter(ctx, w.kd.Key(op.Key), func(k, v interface{}) error { return nil })
		})
	case "clone":
		t = w.tree(op.T)
		if t == nil {
			return nil, res, false
		}
		res = guard(func() error { _, err := t.m.Clone(ctx); return err })
	case "cur":
		t = w.tree(op.T)
		if t == nil {
			return nil, res, false
		}
		res = guard(func() error {
			c, err := t.m.Cursor(ctx)
			if err != nil {
				return err
			}
			switch op.F {
			case "max":
				err = c.Max(ctx)
			case "ceil":
				if w.keyOK(op.Key) {
					err = c.Ceil(ctx, w.kd.Key(op.Key))
				}
			default:
				err = c.Min(ctx)
			}
			if err != nil {
				return err
			}
			for _, mv := range op.S {
				if _, _, ok := c.Get(); !ok {
					break
				}
				if mv >= 0 {
					err = c.Forward(ctx)
				} else {
					err = c.Backward(ctx)
				}
				if err != nil {
					return err
				}
			}
			return nil
		})
	case "diff":
		// judged tree is the new side when it is a working tree, else the old side
		oldM, _, _, ok1 := w.handle(op.A)
		newM, _, _, ok2 := w.handle(op.B)
		if !ok1 || !ok2 || newM == nil {
			return nil, res, false
		}
		if op.B < refVerBase {
			t = w.tree(op.B)
		} else if op.A < refVerBase {
			t = w.tree(op.A)
		}
		if t == nil {
			return nil, res, false
		}
		res = guard(func() error {
			return newM.DiffIter(ctx, oldM, func(a, r bool, k, av, rv interface{}) (bool, error) { return true, nil })
		})
	default:
		return nil, res, false
	}
	return t, res, true
}

type faultPoint struct {
	kind string // load-fail, load-notfound, compare-fail, marshal-fail, unmarshal-fail
	idx  int
}

func (w *World) armFault(fp faultPoint) {
	for _, d := range w.disks {
		d.ClearFaults()
		d.BeginCall()
	}
	w.seams.reset()
	switch fp.kind {
	case "load-fail":
		for _, d := range w.disks {
			d.FailLoadAt, d.FailLoadKind = fp.idx, "fail"
		}
	case "load-notfound":
		for _, d := range w.disks {
			d.FailLoadAt, d.FailLoadKind = fp.idx, "notfound"
		}
	case "compare-fail":
		w.seams.failCmp = fp.idx
	case "marshal-fail":
		w.seams.failMar = fp.idx
	case "unmarshal-fail":
		w.seams.failUnm = fp.idx
	}
}

// armSecond adds a second fault without resetting windows or counters (pairs of faults).
func (w *World) armSecond(fp faultPoint) {
	switch fp.kind {
	case "load-fail", "load-notfound":
		// the disk has one load-fault slot: a second load fault is placed only if the first is not one
		for _, d := range w.disks {
			if d.FailLoadAt == 0 {
				d.FailLoadAt = fp.idx
				d.FailLoadKind = strings.TrimPrefix(fp.kind, "load-")
				if d.FailLoadKind == "fail" {
					d.FailLoadKind = "fail"
				}
			}
		}
	case "compare-fail":
		if w.seams.failCmp == 0 {
			w.seams.failCmp = fp.idx
		}
	case "marshal-fail":
		if w.seams.failMar == 0 {
			w.seams.failMar = fp.idx
		}
	case "unmarshal-fail":
		if w.seams.failUnm == 0 {
			w.seams.failUnm = fp.idx
		}
	}
}

func (w *World) disarm() {
	for _, d := range w.disks {
		d.ClearFaults()
	}
	w.seams.failCmp, w.seams.failMar, w.seams.failUnm = 0, 0, 0
}

// RunFaultScenario executes sc.Ops[:last] as prefix and the last op with the fault
// described in sc.Extra (fault_kind index into faultKinds, fault_index). With no
// Extra it only counts the seam calls of the last op (returned via w.extra).
var faultKinds = []string{"load-fail", "load-notfound", "compare-fail", "marshal-fail", "unmarshal-fail"}

func RunFaultScenario(t *testing.T, sc *Scenario) (w *World) {
	defer func() {
		if r := recover(); r != nil {
			if w != nil && w.viol == nil {
				w.st.Truncated = fmt.Sprintf("bubble-panic: %v", r)
			}
		}
	}()
	hang.begin(sc)
	defer hang.end()
	if p := inBubble(t, func(t *testing.T) {
		w = NewWorld(t, sc)
		w.installCallbackFaults()
		w.runFault()
	}); p != nil {
		panic(p)
	}
	return w
}

func (w *World) runFault() {
	t0, r := w.newEmptyTree(0)
	if r.bad() {
		w.st.Truncated = "newtree"
		return
	}
	w.trees = append(w.trees, t0)
	n := len(w.sc.Ops)
	if n == 0 {
		return
	}
	for i := 0; i < n-1; i++ {
		if w.stopped() {
			w.finish()
			return
		}
		w.opIdx = i
		w.st.Ops++
		w.exec(&w.sc.Ops[i])
	}
	if w.stopped() {
		w.finish()
		return
	}
	op := &w.sc.Ops[n-1]
	w.opIdx = n - 1
	if w.extra == nil || w.extra["fault_index"] == 0 {
		// counting run
		for _, d := range w.disks {
			d.BeginCall()
		}
		w.seams.reset()
		_, res, ok := w.rawExec(op)
		w.counted = map[string]int{}
		if ok && !res.bad() {
			loads := 0
			for _, d := range w.disks {
				_, _, lc, _ := d.Window()
				loads += lc
			}
			w.counted["load"] = loads
			w.counted["compare"] = w.seams.cmp
			w.counted["marshal"] = w.seams.mar
			w.counted["unmarshal"] = w.seams.unm
		}
		w.finish()
		return
	}
	fp := faultPoint{kind: faultKinds[w.extra["fault_kind"]%len(faultKinds)], idx: w.extra["fault_index"]}
	var fp2 *faultPoint
	if w.extra["fault_index2"] > 0 {
		fp2 = &faultPoint{kind: faultKinds[w.extra["fault_kind2"]%len(faultKinds)], idx: w.extra["fault_index2"]}
	}
	// pre-op observation (fault-free)
	tr := w.faultTarget(op)
	if tr == nil {
		w.finish()
		return
	}
	preObs, pr := w.observe(tr.m)
	if pr.bad() || !sameStrs(preObs, w.modelObs(tr.model)) {
		w.st.Truncated = "C01/pre-fault-mismatch"
		w.finish()
		return
	}
	preSize, preHeight := tr.m.Size(), tr.m.Height()
	if op.K == "cur" && fp2 == nil {
		w.cursorUnderFault(op, tr, fp)
		w.finish()
		return
	}
	w.armFault(fp)
	if fp2 != nil {
		w.armSecond(*fp2)
	}
	_, res, ok := w.rawExec(op)
	fired := 0
	for _, d := range w.disks {
		fired += d.Fired["load-fail"] + d.Fired["load-notfound"]
	}
	for k, v := range w.seams.fired {
		fired += v
		w.st.Faults[k] += v
	}
	w.disarm()
	if !ok || fired == 0 {
		w.finish()
		return
	}
	w.st.OracleEvals++
	if res.panicked != nil {
		w.st.Probes["panic-under-fault"]++
		w.finish()
		return
	}
	if res.err == nil {
		w.st.Probes["fault-absorbed"]++
		w.finish()
		return
	}
	w.st.Probes["op-returned-error"]++
	// the signature names the failing call site by the leading wrap of the returned error
	// (e.g. "shrink", "split", "canGrow"), so that a different site is a different finding
	// the fault kind in the signature is the one whose error actually came back (with pairs of
	// faults the first armed one may have been absorbed)
	kind := fp.kind
	switch {
	case errors.Is(res.err, ErrInjMarshal):
		kind = "marshal-fail"
	case errors.Is(res.err, ErrInjCompare):
		kind = "compare-fail"
	case errors.Is(res.err, ErrInjUnmarshal):
		kind = "unmarshal-fail"
	case errors.Is(res.err, ErrInjLoad):
		kind = "load-fail"
	case errors.Is(res.err, ErrInjNotFound):
		kind = "load-notfound"
	case strings.Contains(res.err.Error(), ErrInjUnmarshal.Error()):
		kind = "unmarshal-fail"
	}
	sigTail := op.K + "/" + kind + "/" + errSite(res.err)
	w.st.Probes["error-site:"+sigTail]++
	if fp2 != nil {
		w.st.Probes["fault-pairs-judged"]++
	}
	obs, or := w.observe(tr.m)
	if or.bad() {
		w.fail("unreadable-after-error/"+sigTail, "%s returned %v under %s#%d; with the fault cleared the tree cannot be iterated: %s", op.K, res.err, fp.kind, fp.idx, or)
		w.finish()
		return
	}
	if !sameStrs(obs, preObs) {
		w.fail("contents-changed/"+sigTail, "%s returned %v under %s#%d but the tree's contents changed: %s", op.K, res.err, fp.kind, fp.idx, firstDiff(obs, preObs))
		w.finish()
		return
	}
	if tr.m.Size() != preSize {
		w.fail("size-changed/"+sigTail, "%s returned %v under %s#%d but Size went %d -> %d", op.K, res.err, fp.kind, fp.idx, preSize, tr.m.Size())
		w.finish()
		return
	}
	if tr.m.Height() != preHeight {
		w.fail("height-changed/"+sigTail, "%s returned %v under %s#%d but Height went %d -> %d", op.K, res.err, fp.kind, fp.idx, preHeight, tr.m.Height())
		w.finish()
		return
	}
	// Half of the runs do not retry at once but carry on with other operations: state that is not
	// directly observable (size thresholds, flags) must be what it was, or the heights the tree
	// takes from here on stop being the canonical ones. (An immediate retry can heal such state.)
	latentFirst := (w.extra["fault_index"]+len(w.sc.Ops))%2 == 0
	if latentFirst && !w.cfg.InMemory {
		if w.latentCheck(tr, op, sigTail) {
			w.finish()
			return
		}
	}
	// retry with the fault cleared: must succeed with the normal result
	w.exec(op)
	if w.st.Truncated != "" && w.viol == nil {
		tr := w.st.Truncated
		w.st.Truncated = ""
		w.fail("retry-after-fault-fails/"+sigTail, "retrying %s after %s#%d cleared did not give the normal result: %s", op.K, fp.kind, fp.idx, tr)
	}
	if !latentFirst && !w.cfg.InMemory && w.viol == nil && w.st.Truncated == "" && (op.K == "ins" || op.K == "del") {
		// the other half: the retry first, then the same continuation (a retry that "heals" what
		// it can see may still leave the hidden state behind)
		w.latentCheck(tr, nil, sigTail+"/after-retry")
	}
	w.finish()
}

// cursorUnderFault: a navigation call that returns an error because of the injected fault is
// retried on the SAME cursor with the fault cleared; it must then succeed with the normal result,
// i.e. the walk continues to visit exactly the sorted entries.
func (w *World) cursorUnderFault(op *Op, t *Tree, fp faultPoint) {
	all := w.modelObs(t.model)
	n := len(all)
	if h := int(t.m.Height()); h >= 5 {
		w.st.Probes["cursor-under-fault-on-tree-of-height-5-or-more"]++
	} else {
		w.st.Probes[fmt.Sprintf("cursor-under-fault-on-tree-of-height-%d", h)]++
	}
	w.armFault(fp)
	defer w.disarm()
	var c *mast.Cursor
	r := guard(func() error {
		var err error
		c, err = t.m.Cursor(ctx)
		return err
	})
	if r.bad() {
		return // the fault hit Cursor() itself: covered by the generic path (tree unchanged + fresh retry)
	}
	pos := 0
	place := func() error {
		switch op.F {
		case "max":
			pos = n - 1
			if n == 0 {
				pos = 0
			}
			return c.Max(ctx)
		case "ceil":
			if !w.keyOK(op.Key) {
				return nil
			}
			pos = t.model.Ceil(op.Key)
			return c.Ceil(ctx, w.kd.Key(op.Key))
		}
		pos = 0
		return c.Min(ctx)
	}
	fired := func() int {
		f := 0
		for _, d := range w.disks {
			f += d.Fired["load-fail"] + d.Fired["load-notfound"]
		}
		for _, v := range w.seams.fired {
			f += v
		}
		return f
	}
	placeRetried := false
	r = guard(place)
	if r.panicked != nil {
		w.st.Probes["panic-under-fault"]++
		return
	}
	if r.err != nil {
		if fired() == 0 {
			return // an error that is not ours
		}
		// the placement call itself failed under the fault: the same call on the same cursor must
		// succeed once the fault has cleared, and the walk from there must be the sorted list's
		w.st.OracleEvals++
		w.st.Probes["placement-call-failed-under-fault"]++
		w.disarm()
		if r2 := guard(place); r2.bad() {
			w.fail("retry-after-fault-fails/cur-place-"+op.F+"/"+fp.kind, "cursor placement (%s) returned %v under %s#%d; retried on the same cursor with the fault cleared it fails again: %s", op.F, r.err, fp.kind, fp.idx, r2)
			return
		}
		placeRetried = true
		k, v, ok := c.Get()
		wantOK := pos >= 0 && pos < n
		if ok != wantOK || (ok && w.obsEntry(k, v) != all[pos]) {
			w.fail("retry-after-fault-wrong-position/cur-place-"+op.F+"/"+fp.kind, "cursor placement (%s) failed under %s#%d and was retried on the same cursor: entry=%v, the sorted list says entry=%v at position %d", op.F, fp.kind, fp.idx, ok, wantOK, pos)
			return
		}
	}
	for _, mv := range op.S {
		if pos < 0 || pos >= n {
			return
		}
		step := func() error {
			if mv >= 0 {
				return c.Forward(ctx)
			}
			return c.Backward(ctx)
		}
		what := "forward"
		if mv < 0 {
			what = "backward"
		}
		before := fired()
		r := guard(step)
		if r.panicked != nil {
			w.st.Probes["panic-under-fault"]++
			return
		}
		if r.err != nil {
			if fired() == before {
				return // an error that is not ours
			}
			w.st.OracleEvals++
			w.st.Probes["navigation-call-failed-under-fault"]++
			w.disarm()
			// the cursor must still stand where it stood, and the same call must now succeed
			r2 := guard(step)
			if r2.bad() {
				w.fail("retry-after-fault-fails/cur-"+what+"/"+fp.kind, "%s returned %v under %s#%d; retried on the same cursor with the fault cleared it fails again: %s", what, r.err, fp.kind, fp.idx, r2)
				return
			}
		}
		if mv >= 0 {
			pos++
		} else {
			pos--
		}
		k, v, ok := c.Get()
		wantOK := pos >= 0 && pos < n
		if ok != wantOK || (ok && w.obsEntry(k, v) != all[pos]) {
			if placeRetried && r.err == nil {
				w.fail("retry-after-fault-wrong-position/walk-after-retried-cur-place-"+op.F+"/"+fp.kind, "the cursor placement (%s) failed under %s#%d and was retried successfully on the same cursor; a later %s step stands on the wrong entry (position %d of %d)", op.F, fp.kind, fp.idx, what, pos, n)
				return
			}
			if r.err != nil {
				got := "<no entry>"
				if ok {
					got = w.obsEntry(k, v)
				}
				want := "<no entry>"
				if wantOK {
					want = all[pos]
				}
				w.fail("retry-after-fault-wrong-position/cur-"+what+"/"+fp.kind, "%s failed under %s#%d and was retried on the same cursor: it now stands on %s, the sorted list says %s", what, fp.kind, fp.idx, got, want)
			}
			return
		}
	}
}

// latentCheck continues after a failed (and apparently harmless) operation with a few ordinary
// operations and compares the tree's height with the height the size rule gives for its contents.
func (w *World) latentCheck(t *Tree, op *Op, sigTail string) bool {
	w.st.Probes["latent-state-continuations"]++
	refH := func() int {
		maxL := 0
		for _, e := range t.model.Entries() {
			if l := w.layerOf(e.K); l > maxL {
				maxL = l
			}
		}
		return refHeight(t.model.Len(), w.cfg.BF, maxL)
	}
	check := func(after string) bool {
		if int(t.m.Height()) != refH() {
			w.fail("latent-state-changed/"+sigTail, "after the failed operation (tree apparently unchanged) and then %s, the tree has height %d where %d entries at branch factor %d give %d", after, t.m.Height(), t.model.Len(), w.cfg.BF, refH())
			return true
		}
		return false
	}
	if check("nothing else") {
		return true
	}
	// a few ordinary operations, none of them on the key of the failed operation (operating on
	// that key again is the retry, which can heal such state): delete from both ends down to a
	// handful of entries, then insert absent keys of the highest layers
	skip := -1
	if op != nil && (op.K == "ins" || op.K == "del") {
		skip = op.Key
	}
	apply := func(what string, call func() error, onOK func()) (stop, viol bool) {
		r := guard(call)
		if r.bad() {
			return true, false // an ordinary failure here is not this oracle's business
		}
		onOK()
		if check(what) {
			return true, true
		}
		return false, false
	}
	for step := 0; step < 8; step++ {
		es := t.model.Entries()
		if len(es) <= 2 {
			break
		}
		e := es[len(es)-1]
		what := "deleting the largest entry"
		if step%2 == 1 {
			e = es[0]
			what = "deleting the smallest entry"
		}
		if e.K == skip {
			if step%2 == 1 {
				e = es[1]
			} else {
				e = es[len(es)-2]
			}
		}
		stop, viol := apply(fmt.Sprintf("%s (step %d)", what, step), func() error { return t.m.Delete(ctx, w.kd.Key(e.K), w.vd.Val(e.V)) }, func() { t.model.Del(e.K) })
		if viol {
			return true
		}
		if stop {
			return false
		}
	}
	for step := 0; step < 3; step++ {
		best, bk := -1, -1
		for k := 0; k < w.cfg.U && k < 400; k++ {
			if _, ok := t.model.Get(k); ok || k == skip {
				continue
			}
			if l := w.layerOf(k); l > best {
				best, bk = l, k
			}
		}
		if bk < 0 {
			return false
		}
		stop, viol := apply("inserting an absent high-layer key", func() error { return t.m.Insert(ctx, w.kd.Key(bk), w.vd.Val(1)) }, func() { t.model.Put(bk, 1) })
		if viol {
			return true
		}
		if stop {
			return false
		}
	}
	return false
}

func errSite(err error) string {
	msg := err.Error()
	for i := 0; i < len(msg); i++ {
		if msg[i] == ':' {
			msg = msg[:i]
			break
		}
	}
	// a node name in the wrap ("persist load <name>", "node <name>") is not part of the site
	words := strings.Fields(msg)
	for i, wd := range words {
		if len(wd) >= 30 {
			words = words[:i]
			break
		}
	}
	msg = strings.Join(words, " ")
	out := make([]byte, 0, len(msg))
	for i := 0; i < len(msg) && len(out) < 24; i++ {
		c := msg[i]
		if (c >= 'a' && c <= 'z') || (c >= 'A' && c <= 'Z') {
			out = append(out, c)
		} else if len(out) > 0 && out[len(out)-1] != '-' {
			out = append(out, '-')
		}
	}
	return string(out)
}

func (w *World) faultTarget(op *Op) *Tree {
	if op.K == "diff" {
		if op.B < refVerBase {
			return w.tree(op.B)
		}
		if op.A < refVerBase {
			return w.tree(op.A)
		}
		return nil
	}
	return w.tree(op.T)
}

// RunFaultEnumShard is the main loop of a C12 shard.
func RunFaultEnumShard(t *testing.T, env *ShardEnv) *ShardReport {
	rep := newShardReport(env.Prop, "faultenum", env.Shard, env.Tier, env.Seed)
	liveReport = rep
	start := time.Now()
	shardSeed := mixSeed(env.Seed, strSeed(env.Prop), uint64(env.Shard))
	nt := map[uint64]bool{}
	unknown := 0
	maxPerHistory := 200
outer:
	for i := 0; ; i++ {
		if env.MaxRuns > 0 && i >= env.MaxRuns {
			break
		}
		if time.Since(start) > env.Budget {
			break
		}
		seed := mixSeed(shardSeed, uint64(i))
		if i == 0 {
			rep.FirstSeed = seed
		}
		rep.LastSeed = seed
		full := GenScenario(env.Prop, seed, env.Tier)
		full.Engine = "faultenum"
		faultRuns := 0
		// candidate ops
		var js []int
		for j, op := range full.Ops {
			if faultable(op.K) {
				js = append(js, j)
			}
		}
		for _, j := range js {
			if faultRuns >= maxPerHistory || time.Since(start) > env.Budget {
				break
			}
			sc := full.Clone()
			sc.Ops = sc.Ops[:j+1]
			sc.Extra = nil
			cw := RunFaultScenario(t, sc)
			rep.Evaluations++
			if cw.counted == nil {
				continue
			}
			kinds := []struct {
				kind  int
				count int
			}{{0, cw.counted["load"]}, {1, cw.counted["load"]}, {2, cw.counted["compare"]}, {3, cw.counted["marshal"]}, {4, cw.counted["unmarshal"]}}
			// sampled pairs of faults (different kinds) on the same op
			pg := NewGen(mixSeed(seed, uint64(j), 99))
			for pi := 0; pi < 6; pi++ {
				a, b := kinds[pg.Intn(len(kinds))], kinds[pg.Intn(len(kinds))]
				if a.count == 0 || b.count == 0 || a.kind == b.kind || (a.kind <= 1 && b.kind <= 1) {
					continue
				}
				fs := sc.Clone()
				fs.Extra = map[string]int{"fault_kind": a.kind, "fault_index": 1 + pg.Intn(min(a.count, 24)), "fault_kind2": b.kind, "fault_index2": 1 + pg.Intn(min(b.count, 24))}
				w := RunFaultScenario(t, fs)
				faultRuns++
				rep.Evaluations++
				rep.absorb(w.st)
				if w.viol != nil {
					if k, ok := env.Known[w.viol.Sig]; ok {
						rep.KnownHits[w.viol.Sig]++
						rep.KnownWhat[w.viol.Sig] = k.Finding
						continue
					}
					vr := handleViolation(t, env, fs, w, RunFaultScenario)
					if vr.Replay == "" {
						rep.Truncated["violation-not-reproducible-in-fresh-process"]++
						continue
					}
					rep.Violations = append(rep.Violations, vr)
					unknown++
					if unknown >= 3 {
						break outer
					}
				}
			}
			for _, kc := range kinds {
				cnt := kc.count
				// cap per kind per op: every Load / Unmarshal call up to 24, the first 6 compare /
				// marshal calls (there are many more of those and they exercise the same few sites)
				lim := 24
				if kc.kind == 2 || kc.kind == 3 {
					lim = 6
				}
				if cnt > lim {
					cnt = lim
				}
				for idx := 1; idx <= cnt; idx++ {
					fs := sc.Clone()
					fs.Extra = map[string]int{"fault_kind": kc.kind, "fault_index": idx}
					w := RunFaultScenario(t, fs)
					faultRuns++
					rep.Evaluations++
					rep.absorb(w.st)
					if w.st.OracleEvals > 0 {
						h := newHasher()
						cj, _ := json.Marshal(fs.Cfg)
						h.Str(string(cj))
						for _, op := range fs.Ops {
							h.Str(op.K)
							h.Int(op.Key)
						}
						h.Int(kc.kind)
						h.Int(idx)
						nt[h.Sum()] = true
						if len(rep.Samples) < 2 && len(fs.Ops) <= 25 {
							b, _ := json.Marshal(fs)
							rep.Samples = append(rep.Samples, b)
						}
					}
					if w.viol != nil {
						if k, ok := env.Known[w.viol.Sig]; ok {
							rep.KnownHits[w.viol.Sig]++
							rep.KnownWhat[w.viol.Sig] = k.Finding
							continue
						}
						vr := handleViolation(t, env, fs, w, RunFaultScenario)
						if vr.Replay == "" {
							rep.Truncated["violation-not-reproducible-in-fresh-process"]++
							continue
						}
						rep.Violations = append(rep.Violations, vr)
						unknown++
						if unknown >= 3 {
							break outer
						}
					}
				}
			}
		}
	}
	for h := range nt {
		rep.NonTrivial = append(rep.NonTrivial, h)
	}
	sort.Slice(rep.NonTrivial, func(i, j int) bool { return rep.NonTrivial[i] < rep.NonTrivial[j] })
	rep.WallS = time.Since(start).Seconds()
	rep.Note = "per covered op: one counting run, then one run per (fault kind, call index) with that call failing; call indexes capped at 24 per kind per op"
	return rep
}

func init() {
	extraEngines["faultenum"] = RunFaultEnumShard
	extraReplayers["faultenum"] = RunFaultScenario
	profiles["C12"] = map[string]int{"ins": 30, "del": 16, "get": 8, "iter": 3, "seek": 4, "diff": 5, "clone": 3, "cur": 5, "persist": 10, "reload": 10, "fork": 3, "restart": 2, "bulk": 2}
	propTable["C12"] = PropInfo{Engine: "faultenum", Level: "fault_enumeration", QuickS: 24, ThorS: 600,
		Rule: "one evaluation = one execution of (history prefix, covered op) — either a fault-free counting run or a run with exactly one seam call of that op failing (Persist.Load error / not-found, KeyCompare, Marshal, Unmarshal at call index i, every i up to 24 per kind); non-trivial = the fault fired and the op returned an error (so the unchanged-tree and retry oracles were evaluated) or absorbed it; distinct = hash of (config, prefix op kinds/keys, fault kind, call index)",
		Assumptions: []string{"every single fault per operation is enumerated (first 24 call indexes per kind); pairs of faults of different kinds are sampled (6 per op)", "a panic under an injected fault is counted, not reported: the property speaks of calls that return an error"},
	}
}
