package sim

import (
	"bytes"
	"encoding/binary"
	"encoding/json"
	"errors"
	"fmt"
)

// Independent codec for the two published node formats, written from the
// format description (not by calling the library):
//
//   v1.1.5binary: uvarint(#keys) {uvarint(len) body}* uvarint(#values) {uvarint(len) body}*
//                 uvarint(#links) {uvarint(len) name}*   — #links is 0 when every link is nil
//   v1marshaler + JSON: {"Key":[...],"Value":[...],"Link":[null|"name",...]} — "Link" omitted when all nil

const (
	FmtBinary    = "v1.1.5binary"
	FmtMarshaler = "v1marshaler"
)

// DNode is a decoded stored node: marshaled key/value bodies and child names ("" = nil).
type DNode struct {
	Keys  [][]byte
	Vals  [][]byte
	Links []string // always len(Keys)+1 after normalisation
	LinksOmitted bool
	RawLinkCount int
}

func putUvarint(buf []byte, n int) []byte {
	var tmp [binary.MaxVarintLen64]byte
	l := binary.PutUvarint(tmp[:], uint64(n))
	return append(buf, tmp[:l]...)
}

// EncodeBinary is the independent encoder for v1.1.5binary.
func EncodeBinary(keys, vals [][]byte, links []string) []byte {
	var buf []byte
	buf = putUvarint(buf, len(keys))
	for _, k := range keys {
		buf = putUvarint(buf, len(k))
		buf = append(buf, k...)
	}
	buf = putUvarint(buf, len(vals))
	for _, v := range vals {
		buf = putUvarint(buf, len(v))
		buf = append(buf, v...)
	}
	allNil := true
	for _, l := range links {
		if l != "" {
			allNil = false
		}
	}
	if allNil {
		buf = putUvarint(buf, 0)
		return buf
	}
	buf = putUvarint(buf, len(links))
	for _, l := range links {
		buf = putUvarint(buf, len(l))
		buf = append(buf, l...)
	}
	return buf
}

// EncodeJSONNode is the independent encoder for v1marshaler with the default JSON marshaler.
func EncodeJSONNode(keys, vals [][]byte, links []string) []byte {
	var b bytes.Buffer
	b.WriteString(`{"Key":[`)
	for i, k := range keys {
		if i > 0 {
			b.WriteByte(',')
		}
		b.Write(k)
	}
	b.WriteString(`],"Value":[`)
	for i, v := range vals {
		if i > 0 {
			b.WriteByte(',')
		}
		b.Write(v)
	}
	b.WriteString(`]`)
	allNil := true
	for _, l := range links {
		if l != "" {
			allNil = false
		}
	}
	if !allNil {
		b.WriteString(`,"Link":[`)
		for i, l := range links {
			if i > 0 {
				b.WriteByte(',')
			}
			if l == "" {
				b.WriteString("null")
			} else {
				jb, _ := json.Marshal(l)
				b.Write(jb)
			}
		}
		b.WriteString(`]`)
	}
	b.WriteString(`}`)
	return b.Bytes()
}

func EncodeNode(format string, keys, vals [][]byte, links []string) []byte {
	if format == FmtBinary {
		return EncodeBinary(keys, vals, links)
	}
	return EncodeJSONNode(keys, vals, links)
}

func getUvarint(buf []byte) (int, []byte, error) {
	v, n := binary.Uvarint(buf)
	if n <= 0 {
		return 0, nil, errors.New("bad uvarint")
	}
	if v > uint64(len(buf))+1<<20 {
		return 0, nil, errors.New("length out of range")
	}
	return int(v), buf[n:], nil
}

func getList(buf []byte) ([][]byte, []byte, error) {
	n, buf, err := getUvarint(buf)
	if err != nil {
		return nil, nil, err
	}
	out := make([][]byte, 0, n)
	for i := 0; i < n; i++ {
		var l int
		l, buf, err = getUvarint(buf)
		if err != nil {
			return nil, nil, err
		}
		if l > len(buf) {
			return nil, nil, errors.New("body exceeds buffer")
		}
		out = append(out, buf[:l])
		buf = buf[l:]
	}
	return out, buf, nil
}

// DecodeBinary is the independent decoder for v1.1.5binary.
func DecodeBinary(b []byte) (*DNode, error) {
	keys, rest, err := getList(b)
	if err != nil {
		return nil, fmt.Errorf("keys: %w", err)
	}
	vals, rest, err := getList(rest)
	if err != nil {
		return nil, fmt.Errorf("values: %w", err)
	}
	links, rest, err := getList(rest)
	if err != nil {
		return nil, fmt.Errorf("links: %w", err)
	}
	if len(rest) != 0 {
		return nil, fmt.Errorf("%d trailing bytes", len(rest))
	}
	n := &DNode{Keys: keys, Vals: vals, RawLinkCount: len(links)}
	if len(links) == 0 {
		n.LinksOmitted = true
		n.Links = make([]string, len(keys)+1)
	} else {
		n.Links = make([]string, len(links))
		for i, l := range links {
			n.Links[i] = string(l)
		}
	}
	return n, nil
}

// DecodeJSONNode is the independent decoder for v1marshaler + default JSON.
func DecodeJSONNode(b []byte) (*DNode, error) {
	var raw struct {
		Key   []json.RawMessage
		Value []json.RawMessage
		Link  []*string
	}
	dec := json.NewDecoder(bytes.NewReader(b))
	dec.DisallowUnknownFields()
	if err := dec.Decode(&raw); err != nil {
		return nil, err
	}
	n := &DNode{RawLinkCount: len(raw.Link)}
	for _, k := range raw.Key {
		n.Keys = append(n.Keys, []byte(k))
	}
	for _, v := range raw.Value {
		n.Vals = append(n.Vals, []byte(v))
	}
	if len(raw.Link) == 0 {
		n.LinksOmitted = true
		n.Links = make([]string, len(n.Keys)+1)
	} else {
		n.Links = make([]string, len(raw.Link))
		for i, l := range raw.Link {
			if l != nil {
				n.Links[i] = *l
			}
		}
	}
	return n, nil
}

func DecodeNode(format string, b []byte) (*DNode, error) {
	if format == FmtBinary {
		return DecodeBinary(b)
	}
	return DecodeJSONNode(b)
}
