package sim

import "encoding/json"

// Independent re-implementation of the published layer rule, used by C14 and C19:
//   integers: the number of times the value is divisible by the branch factor (0 for the value 0);
//   strings / byte strings / other types via their marshaled bytes: the same rule applied to
//   the CRC-64 (ECMA-182 polynomial, reflected, init/xorout all-ones) of the bytes.

var crc64ECMA [256]uint64

func init() {
	// reflected ECMA-182 polynomial 0x42F0E1EBA9EA3693 -> 0xC96C5795D7870F42
	const poly = 0xC96C5795D7870F42
	for i := 0; i < 256; i++ {
		crc := uint64(i)
		for j := 0; j < 8; j++ {
			if crc&1 == 1 {
				crc = (crc >> 1) ^ poly
			} else {
				crc >>= 1
			}
		}
		crc64ECMA[i] = crc
	}
}

func crc64ecma(b []byte) uint64 {
	crc := ^uint64(0)
	for _, c := range b {
		crc = crc64ECMA[byte(crc)^c] ^ (crc >> 8)
	}
	return ^crc
}

func divLayerU(v uint64, bf uint) int {
	l := 0
	if bf < 2 {
		return 0
	}
	for v != 0 && v%uint64(bf) == 0 {
		v /= uint64(bf)
		l++
	}
	return l & 0xff
}

func divLayerI(v int64, bf uint) int {
	l := 0
	if bf < 2 {
		return 0
	}
	for v != 0 && v%int64(bf) == 0 {
		v /= int64(bf)
		l++
	}
	return l & 0xff
}

// IndepLayer computes the layer of a concrete key under the published rule (default marshaler).
func IndepLayer(k interface{}, bf uint) int {
	return IndepLayerM(k, bf, json.Marshal)
}

// IndepLayerM: as IndepLayer, with the configured marshaler for keys layered by their marshaled bytes.
func IndepLayerM(k interface{}, bf uint, marshal func(interface{}) ([]byte, error)) int {
	switch v := k.(type) {
	case UKey:
		return int(v.L)
	case int:
		return divLayerI(int64(v), bf)
	case int64:
		return divLayerI(v, bf)
	case uint:
		return divLayerU(uint64(v), bf)
	case uint64:
		return divLayerU(v, bf)
	case string:
		return divLayerU(crc64ecma([]byte(v)), bf)
	case []byte:
		return divLayerU(crc64ecma(v), bf)
	default:
		b, _ := marshal(k)
		return divLayerU(crc64ecma(b), bf)
	}
}
