package sim

import "sort"

// Entry is one model entry: key index and value index.
type Entry struct{ K, V int }

// Model is the reference sorted map: entries kept in ascending key order
// (by the dialect's rank, an order written in the harness).
type Model struct {
	d  *KeyDialect
	es []Entry
}

func NewModel(d *KeyDialect) *Model { return &Model{d: d} }

func (m *Model) Clone() *Model {
	return &Model{d: m.d, es: append([]Entry(nil), m.es...)}
}

func (m *Model) Len() int { return len(m.es) }

// pos returns the position of the first entry whose key is >= k, and whether it is k.
func (m *Model) pos(k int) (int, bool) {
	r := m.d.rank[k]
	i := sort.Search(len(m.es), func(i int) bool { return m.d.rank[m.es[i].K] >= r })
	return i, i < len(m.es) && m.es[i].K == k
}

func (m *Model) Get(k int) (int, bool) {
	i, ok := m.pos(k)
	if !ok {
		return 0, false
	}
	return m.es[i].V, true
}

func (m *Model) Put(k, v int) {
	i, ok := m.pos(k)
	if ok {
		m.es[i].V = v
		return
	}
	m.es = append(m.es, Entry{})
	copy(m.es[i+1:], m.es[i:])
	m.es[i] = Entry{k, v}
}

func (m *Model) Del(k int) {
	i, ok := m.pos(k)
	if !ok {
		return
	}
	m.es = append(m.es[:i], m.es[i+1:]...)
}

func (m *Model) Entries() []Entry { return m.es }

// Ceil returns the position of the least entry with key >= k (len if none).
func (m *Model) Ceil(k int) int {
	i, _ := m.pos(k)
	return i
}

func (m *Model) Equal(o *Model, vd *ValDialect) bool {
	if len(m.es) != len(o.es) {
		return false
	}
	for i := range m.es {
		if m.es[i].K != o.es[i].K {
			return false
		}
		if vd.Distinct(m.es[i].V, o.es[i].V) {
			return false
		}
	}
	return true
}

func (m *Model) Hash(h *hasher) {
	for _, e := range m.es {
		h.Int(e.K)
		h.Int(e.V)
	}
}

// DiffEntry is one expected diff record.
type DiffEntry struct {
	K            int
	Type         string // add, remove, change
	OldV, NewV   int
}

// ModelDiff computes the expected entry diff old -> new in ascending key order.
func ModelDiff(old, nw *Model, vd *ValDialect) []DiffEntry {
	var out []DiffEntry
	var oe, ne []Entry
	if old != nil {
		oe = old.es
	}
	ne = nw.es
	d := nw.d
	i, j := 0, 0
	for i < len(oe) || j < len(ne) {
		switch {
		case j >= len(ne) || (i < len(oe) && d.rank[oe[i].K] < d.rank[ne[j].K]):
			out = append(out, DiffEntry{K: oe[i].K, Type: "remove", OldV: oe[i].V})
			i++
		case i >= len(oe) || d.rank[ne[j].K] < d.rank[oe[i].K]:
			out = append(out, DiffEntry{K: ne[j].K, Type: "add", NewV: ne[j].V})
			j++
		default:
			if vd.Distinct(oe[i].V, ne[j].V) {
				out = append(out, DiffEntry{K: oe[i].K, Type: "change", OldV: oe[i].V, NewV: ne[j].V})
			}
			i++
			j++
		}
	}
	return out
}
