package sim

import (
	"bufio"
	"bytes"
	"fmt"
	"os"
	"os/exec"
	"path/filepath"
	"regexp"
	"sort"
	"strconv"
	"strings"
	"syscall"
	"testing"
	"time"
)

// C17 engine: the file store under cut, failed and killed storage syscalls.
//
// The store under test is the real persist/file package running in a child process
// (cmd/filechild) against a real directory. Faults are injected from outside, at
// the syscall seam: RLIMIT_FSIZE=N makes the kernel cut the node write at byte N
// (I/O error at N); strace's inject=…:signal=KILL kills the process on entry to a
// chosen syscall (crash), inject=…:error=EIO fails it. After each injection a fresh
// child ("restart") loads, re-stores and loads the node again.

type fsItem struct {
	Size int
	Mode string // eio-byte, crash-byte, crash-sys, err-sys
	At   int    // byte offset (…-byte modes) or ordinal of the syscall on the main thread
	Sys  string // syscall name (…-sys modes)
	Seq  int    // position in the storage sequence of the record run (…-sys modes)
	Sys2 string // pause-fail: the later syscall of writer A that fails; pause-bkill: the syscall at which writer B is killed
	At2  int
}

func (it fsItem) String() string {
	if it.Sys2 != "" {
		return fmt.Sprintf("%s size=%d %s#%d(seq %d) then %s#%d", it.Mode, it.Size, it.Sys, it.At, it.Seq, it.Sys2, it.At2)
	}
	if it.Sys != "" {
		return fmt.Sprintf("%s size=%d %s#%d(seq %d)", it.Mode, it.Size, it.Sys, it.At, it.Seq)
	}
	return fmt.Sprintf("%s size=%d byte=%d", it.Mode, it.Size, it.At)
}

type fsEnv struct {
	child   string // path of filechild binary
	work    string // scratch directory
	strace  bool
	counter int
	tmpdir  string // TMPDIR handed to the children: on another file system than the data directory when one exists
}

// childCmd builds a child command whose TMPDIR lies on a different file system than the node
// directory (if the sandbox has one): a store that stages its temporary file there cannot
// publish it by rename.
func (e *fsEnv) childCmd(name string, args ...string) *exec.Cmd {
	cmd := exec.Command(name, args...)
	if e.tmpdir != "" {
		cmd.Env = append(os.Environ(), "TMPDIR="+e.tmpdir)
	}
	return cmd
}

func newFsEnv() (*fsEnv, error) {
	bin := os.Getenv("VERIF_BIN_DIR")
	if bin == "" {
		return nil, fmt.Errorf("VERIF_BIN_DIR not set")
	}
	e := &fsEnv{child: filepath.Join(bin, "filechild")}
	if _, err := os.Stat(e.child); err != nil {
		return nil, err
	}
	out := os.Getenv("VERIF_OUT")
	if out == "" {
		out = bin
	}
	e.work = filepath.Join(out, fmt.Sprintf("fs-%d", os.Getpid()))
	if err := os.MkdirAll(e.work, 0o755); err != nil {
		return nil, err
	}
	// strace usable?
	cmd := exec.Command("strace", "-f", "-o", "/dev/null", "-e", "trace=write", "true")
	e.strace = cmd.Run() == nil
	// a TMPDIR on another file system
	var a, b syscall.Stat_t
	if syscall.Stat(e.work, &a) == nil && syscall.Stat("/dev/shm", &b) == nil && a.Dev != b.Dev {
		td := fmt.Sprintf("/dev/shm/verif-tmp-%d", os.Getpid())
		if os.MkdirAll(td, 0o755) == nil {
			e.tmpdir = td
		}
	}
	return e, nil
}

func payloadOf(size int) []byte {
	// deterministic, non-repeating-looking bytes incl. 0x00 and 0xff
	b := make([]byte, size)
	x := uint64(size)*0x9E3779B97F4A7C15 + 1
	for i := range b {
		x = splitmix64(x)
		b[i] = byte(x)
	}
	if size > 2 {
		b[1] = 0x00
		b[size-1] = 0xff
	}
	return b
}

type sysEvent struct {
	name string
	ord  int // ordinal of this syscall name on the main thread (1-based)
}

var reStraceLine = regexp.MustCompile(`^(\d+)\s+(\w+)\((.*)$`)
var reResumed = regexp.MustCompile(`^(\d+)\s+<\.\.\. (\w+) resumed>(.*)$`)
var reRet = regexp.MustCompile(`=\s+(-?\d+)`)

// recordRun executes an uninjected Store under strace and returns the storage
// syscalls (those touching the data directory or a file opened in it) that the
// current code issues on the main thread, with their per-name ordinals.
func (e *fsEnv) recordRun(size int) ([]sysEvent, error) {
	dir, pf, err := e.freshDir(size)
	if err != nil {
		return nil, err
	}
	defer os.RemoveAll(dir)
	tr := filepath.Join(e.work, fmt.Sprintf("trace-%d.txt", e.counter))
	defer os.Remove(tr)
	cmd := e.childCmd("strace", "-f", "-o", tr, e.child, "store", dir, "node", pf)
	out, err := cmd.CombinedOutput()
	if err != nil || !strings.Contains(string(out), "STORE ok") {
		return nil, fmt.Errorf("record run: %v %s", err, out)
	}
	f, err := os.Open(tr)
	if err != nil {
		return nil, err
	}
	defer f.Close()
	sc := bufio.NewScanner(f)
	sc.Buffer(make([]byte, 1<<22), 1<<22)
	mainTid := ""
	counts := map[string]int{}
	dataFD := map[string]bool{}
	pendingOpen := false
	var evs []sysEvent
	for sc.Scan() {
		line := sc.Text()
		if m := reResumed.FindStringSubmatch(line); m != nil {
			if m[1] == mainTid && m[2] == "openat" && pendingOpen {
				if r := reRet.FindStringSubmatch(m[3]); r != nil {
					dataFD[r[1]] = true
				}
				pendingOpen = false
			}
			continue
		}
		m := reStraceLine.FindStringSubmatch(line)
		if m == nil {
			continue
		}
		if mainTid == "" {
			mainTid = m[1]
		}
		if m[1] != mainTid {
			continue
		}
		name, args := m[2], m[3]
		counts[name]++
		touches := strings.Contains(args, dir+"/") || strings.Contains(args, "\""+dir+"\"")
		if !touches {
			// fd-based
			fd := args
			if i := strings.IndexAny(fd, ",)"); i >= 0 {
				fd = fd[:i]
			}
			fd = strings.TrimSpace(strings.TrimSuffix(fd, " <unfinished ...>"))
			if dataFD[fd] {
				touches = true
				if name == "close" {
					delete(dataFD, fd)
				}
			}
		}
		if !touches {
			continue
		}
		if name == "openat" || name == "open" || name == "creat" {
			if r := reRet.FindStringSubmatch(args); r != nil && !strings.Contains(args, "unfinished") {
				dataFD[r[1]] = true
			} else {
				pendingOpen = true
			}
		}
		evs = append(evs, sysEvent{name, counts[name]})
	}
	return evs, nil
}

func (e *fsEnv) freshDir(size int) (dir, payloadFile string, err error) {
	e.counter++
	dir = filepath.Join(e.work, fmt.Sprintf("d%d", e.counter))
	os.RemoveAll(dir)
	if err = os.MkdirAll(dir, 0o755); err != nil {
		return
	}
	payloadFile = filepath.Join(e.work, fmt.Sprintf("payload-%d", size))
	if _, serr := os.Stat(payloadFile); serr != nil {
		err = os.WriteFile(payloadFile, payloadOf(size), 0o644)
	}
	return
}

type fsOutcome struct {
	storeOut string // STORE ok / STORE error: … / "" if killed
	killed   bool
	verify   string
	listing  string
	sig      string
	detail   string
}

func dirListing(dir, final string) string {
	ents, _ := os.ReadDir(dir)
	var out []string
	for _, en := range ents {
		n := en.Name()
		info, _ := en.Info()
		sz := int64(-1)
		if info != nil {
			sz = info.Size()
		}
		if n != final {
			n = "<other>"
		}
		out = append(out, fmt.Sprintf("%s:%d", n, sz))
	}
	sort.Strings(out)
	return strings.Join(out, ",")
}

// runItem performs one injection followed by restart + load/store/load and judges it.
func (e *fsEnv) runItem(it fsItem, writeOrd int) (*fsOutcome, error) {
	dir, pf, err := e.freshDir(it.Size)
	if err != nil {
		return nil, err
	}
	defer os.RemoveAll(dir)
	var cmd *exec.Cmd
	switch it.Mode {
	case "eio-byte":
		cmd = e.childCmd(e.child, "store", dir, "node", pf, strconv.Itoa(it.At))
	case "crash-byte":
		when := writeOrd + 1
		if it.At == 0 {
			when = writeOrd
		}
		cmd = e.childCmd("strace", "-f", "-o", "/dev/null", "-e", "trace=write",
			"-e", fmt.Sprintf("inject=write:when=%d:signal=KILL", when),
			e.child, "store", dir, "node", pf, strconv.Itoa(it.At))
	case "crash-sys":
		cmd = e.childCmd("strace", "-f", "-o", "/dev/null", "-e", "trace="+it.Sys,
			"-e", fmt.Sprintf("inject=%s:when=%d:signal=KILL", it.Sys, it.At),
			e.child, "store", dir, "node", pf)
	case "err-sys":
		cmd = e.childCmd("strace", "-f", "-o", "/dev/null", "-e", "trace="+it.Sys,
			"-e", fmt.Sprintf("inject=%s:when=%d:error=EIO", it.Sys, it.At),
			e.child, "store", dir, "node", pf)
	case "err-sys-retry":
		// the same process retries the Store after the injected failure and reads the node back
		cmd = e.childCmd("strace", "-f", "-o", "/dev/null", "-e", "trace="+it.Sys,
			"-e", fmt.Sprintf("inject=%s:when=%d:error=EIO", it.Sys, it.At),
			e.child, "storeretryload", dir, "node", pf)
	case "pause-sys", "pause-fail", "pause-bkill":
		return e.runPauseItem(it, dir, pf)
	case "ctx-cancelled":
		cmd = e.childCmd(e.child, "storecancelled", dir, "node", pf)
	case "two-writers-one-process":
		cmd = e.childCmd(e.child, "twowriters", dir, "node", pf)
	default:
		return nil, fmt.Errorf("unknown mode %s", it.Mode)
	}
	var stdout bytes.Buffer
	cmd.Stdout = &stdout
	cmd.Stderr = &stdout
	runErr := cmd.Run()
	o := &fsOutcome{}
	so := stdout.String()
	for _, l := range strings.Split(so, "\n") {
		if strings.HasPrefix(l, "STORE ") {
			o.storeOut = l
		}
		if strings.HasPrefix(l, "HARNESS ") {
			return nil, fmt.Errorf("child: %s", l)
		}
	}
	if o.storeOut == "" {
		o.killed = true
		if runErr == nil {
			return nil, fmt.Errorf("child printed nothing but exited 0: %q", so)
		}
	}
	o.listing = dirListing(dir, "node")
	// restart: fresh process, no limits, no injection
	vcmd := e.childCmd(e.child, "verify", dir, "node", pf)
	vout, verr := vcmd.CombinedOutput()
	if verr != nil {
		return nil, fmt.Errorf("verify child: %v %s", verr, vout)
	}
	o.verify = strings.TrimSpace(string(vout))
	var load1, store2, load2 string
	for _, l := range strings.Split(o.verify, "\n") {
		switch {
		case strings.HasPrefix(l, "LOAD1 "):
			load1 = strings.TrimPrefix(l, "LOAD1 ")
		case strings.HasPrefix(l, "STORE2 "):
			store2 = strings.TrimPrefix(l, "STORE2 ")
		case strings.HasPrefix(l, "LOAD2 "):
			load2 = strings.TrimPrefix(l, "LOAD2 ")
		}
	}
	where := it.Mode
	if it.Sys != "" {
		where += "/" + it.Sys
	}
	for _, l := range strings.Split(so, "\n") {
		if strings.HasPrefix(l, "TW ") && strings.Contains(l, "STOREOK-") {
			o.sig = "C17/successful-store-not-loadable/" + where
			o.detail = fmt.Sprintf("%s: of two goroutines storing the same node at once, one got nil from Store and then: %s", it, strings.TrimPrefix(l, "TW "))
			return o, nil
		}
	}
	var storeB, loadB string
	for _, l := range strings.Split(so, "\n") {
		if strings.HasPrefix(l, "STOREB ") {
			storeB = strings.TrimPrefix(l, "STOREB ")
		}
		if strings.HasPrefix(l, "LOADB ") {
			loadB = strings.TrimPrefix(l, "LOADB ")
		}
	}
	switch {
	case strings.HasPrefix(loadB, "WRONG"):
		o.sig = "C17/partial-node-exposed/" + where
		o.detail = fmt.Sprintf("%s: the retrying process read back %s bytes without error", it, strings.TrimPrefix(loadB, "WRONG "))
	case strings.HasPrefix(storeB, "ok") && !strings.HasPrefix(loadB, "complete"):
		o.sig = "C17/successful-store-not-loadable/" + where
		o.detail = fmt.Sprintf("%s: after the injected failure the same process stored the node again (returned nil), but its Load says %q", it, loadB)
	case strings.HasPrefix(load1, "WRONG"):
		o.sig = "C17/partial-node-exposed/" + where
		o.detail = fmt.Sprintf("%s: after restart Load returned %s bytes without error (dir: %s)", it, strings.TrimPrefix(load1, "WRONG "), o.listing)
	case o.storeOut == "STORE ok" && !strings.HasPrefix(load1, "complete"):
		o.sig = "C17/acked-write-incomplete/" + where
		o.detail = fmt.Sprintf("%s: Store reported success but after restart Load says %q", it, load1)
	case !strings.HasPrefix(store2, "ok"):
		o.sig = "C17/re-store-fails/" + where
		o.detail = fmt.Sprintf("%s: re-storing the node after restart failed: %s (dir before: %s)", it, store2, o.listing)
	case !strings.HasPrefix(load2, "complete"):
		o.sig = "C17/re-store-did-not-repair/" + where
		o.detail = fmt.Sprintf("%s: after re-storing the node Load says %q (dir before: %s)", it, load2, o.listing)
	}
	return o, nil
}

// runPauseItem: writer A is held (strace delay) on entry to one of its storage syscalls while a
// second writer B stores the same node and reads it back; then A finishes; then restart + verify.
// The order "A up to syscall k, all of B, rest of A" is one interleaving of two writers of the
// same name at syscall granularity.
func (e *fsEnv) runPauseItem(it fsItem, dir, pf string) (*fsOutcome, error) {
	const delayUS = 900000
	aargs := []string{"-f", "-o", "/dev/null", "-e", "trace=" + it.Sys,
		"-e", fmt.Sprintf("inject=%s:when=%d:delay_enter=%d", it.Sys, it.At, delayUS)}
	if it.Mode == "pause-fail" {
		// after the pause (during which writer B completes) a later syscall of writer A fails
		aargs = []string{"-f", "-o", "/dev/null", "-e", "trace=" + it.Sys + "," + it.Sys2,
			"-e", fmt.Sprintf("inject=%s:when=%d:delay_enter=%d", it.Sys, it.At, delayUS),
			"-e", fmt.Sprintf("inject=%s:when=%d:error=EIO", it.Sys2, it.At2)}
	}
	a := exec.Command("strace", append(aargs, e.child, "store", dir, "node", pf)...)
	var aout bytes.Buffer
	a.Stdout, a.Stderr = &aout, &aout
	if err := a.Start(); err != nil {
		return nil, err
	}
	time.Sleep(350 * time.Millisecond)
	t0 := time.Now()
	bcmd := exec.Command(e.child, "storeload", dir, "node", pf)
	if it.Mode == "pause-bkill" {
		// writer B starts while A is held and dies at one of its own storage syscalls
		bcmd = exec.Command("strace", "-f", "-o", "/dev/null", "-e", "trace="+it.Sys2,
			"-e", fmt.Sprintf("inject=%s:when=%d:signal=KILL", it.Sys2, it.At2),
			e.child, "storeload", dir, "node", pf)
	}
	bout, berr := bcmd.CombinedOutput()
	bTook := time.Since(t0)
	aerr := a.Wait()
	if berr != nil && it.Mode != "pause-bkill" {
		return nil, fmt.Errorf("writer B: %v %s", berr, bout)
	}
	o := &fsOutcome{}
	for _, l := range strings.Split(aout.String(), "\n") {
		if strings.HasPrefix(l, "STORE ") {
			o.storeOut = l
		}
	}
	if o.storeOut == "" {
		return nil, fmt.Errorf("writer A printed nothing: %v %q", aerr, aout.String())
	}
	var storeB, loadB string
	for _, l := range strings.Split(string(bout), "\n") {
		if strings.HasPrefix(l, "STOREB ") {
			storeB = strings.TrimPrefix(l, "STOREB ")
		}
		if strings.HasPrefix(l, "LOADB ") {
			loadB = strings.TrimPrefix(l, "LOADB ")
		}
	}
	o.listing = dirListing(dir, "node")
	vout, verr := exec.Command(e.child, "verify", dir, "node", pf).CombinedOutput()
	if verr != nil {
		return nil, fmt.Errorf("verify child: %v %s", verr, vout)
	}
	o.verify = "B: STOREB " + storeB + " / LOADB " + loadB + "\n" + strings.TrimSpace(string(vout))
	var load1, store2, load2 string
	for _, l := range strings.Split(string(vout), "\n") {
		switch {
		case strings.HasPrefix(l, "LOAD1 "):
			load1 = strings.TrimPrefix(l, "LOAD1 ")
		case strings.HasPrefix(l, "STORE2 "):
			store2 = strings.TrimPrefix(l, "STORE2 ")
		case strings.HasPrefix(l, "LOAD2 "):
			load2 = strings.TrimPrefix(l, "LOAD2 ")
		}
	}
	where := it.Mode + "/" + it.Sys
	if it.Sys2 != "" {
		where += "+" + it.Sys2
	}
	overlapped := bTook < time.Duration(delayUS-400000)*time.Microsecond
	_ = overlapped
	switch {
	case strings.HasPrefix(loadB, "WRONG"):
		o.sig = "C17/partial-node-exposed/" + where
		o.detail = fmt.Sprintf("%s: while writer A was held at %s, a second writer's read-back returned %s bytes without error", it, it.Sys, strings.TrimPrefix(loadB, "WRONG "))
	case strings.HasPrefix(storeB, "ok") && !strings.HasPrefix(loadB, "complete"):
		o.sig = "C17/successful-store-not-loadable/" + where
		o.detail = fmt.Sprintf("%s: while writer A was held at %s, writer B's Store of the same node returned nil but its Load says %q", it, it.Sys, loadB)
	case strings.HasPrefix(load1, "WRONG"):
		o.sig = "C17/partial-node-exposed/" + where
		o.detail = fmt.Sprintf("%s: after both writers finished Load returned %s bytes without error", it, strings.TrimPrefix(load1, "WRONG "))
	case o.storeOut == "STORE ok" && !strings.HasPrefix(load1, "complete"):
		o.sig = "C17/acked-write-incomplete/" + where
		o.detail = fmt.Sprintf("%s: writer A's Store reported success but afterwards Load says %q", it, load1)
	case strings.HasPrefix(storeB, "ok") && !strings.HasPrefix(load1, "complete"):
		o.sig = "C17/acked-write-lost-to-another-writer/" + where
		o.detail = fmt.Sprintf("%s: writer B's Store of the node reported success (and read it back: %q) while writer A was held; after A finished (%s) Load says %q", it, loadB, o.storeOut, load1)
	case !strings.HasPrefix(store2, "ok"):
		o.sig = "C17/re-store-fails/" + where
		o.detail = fmt.Sprintf("%s: re-storing failed: %s", it, store2)
	case !strings.HasPrefix(load2, "complete"):
		o.sig = "C17/re-store-did-not-repair/" + where
		o.detail = fmt.Sprintf("%s: after re-storing Load says %q", it, load2)
	}
	return o, nil
}

func fsOffsets(size int, g *Gen, thorough bool) []int {
	if size <= 64 {
		out := make([]int, 0, size)
		for i := 0; i < size; i++ {
			out = append(out, i)
		}
		return out
	}
	set := map[int]bool{}
	for _, x := range []int{0, 1, 2, 511, 512, 513, 4095, 4096, 4097, 8192, 65535, 65536, 65537, 1<<20 - 1, 1 << 20, 1<<20 + 1, 2 << 20, 2<<20 + 1, size / 2, size - 2, size - 1} {
		if x >= 0 && x < size {
			set[x] = true
		}
	}
	n := 6
	if thorough {
		n = 40
	}
	for i := 0; i < n; i++ {
		set[g.Intn(size)] = true
	}
	out := make([]int, 0, len(set))
	for x := range set {
		out = append(out, x)
	}
	sort.Ints(out)
	return out
}

// fsEnumerate lists every injection of this tier (deterministic given the seed and the
// record runs, which depend only on the code under test).
func (e *fsEnv) fsEnumerate(tier string, seed uint64) ([]fsItem, map[int]int, map[int][]sysEvent, error) {
	sizes := []int{1, 60}
	if tier == "thorough" {
		sizes = []int{1, 2, 60, 4097, 100 * 1024, 3*1024*1024 + 17}
	} else {
		sizes = append(sizes, 4097, 1536*1024+1)
	}
	g := NewGen(seed)
	var items []fsItem
	writeOrd := map[int]int{}
	recs := map[int][]sysEvent{}
	for _, sz := range sizes {
		items = append(items, fsItem{Size: sz, Mode: "ctx-cancelled"})
		if sz > 1<<20 {
			for r := 0; r < 3; r++ {
				items = append(items, fsItem{Size: sz, Mode: "two-writers-one-process", At: r})
			}
		}
		offs := fsOffsets(sz, g, tier == "thorough")
		for _, n := range offs {
			items = append(items, fsItem{Size: sz, Mode: "eio-byte", At: n})
		}
		if !e.strace {
			continue
		}
		evs, err := e.recordRun(sz)
		if err != nil {
			return nil, nil, nil, err
		}
		recs[sz] = evs
		wo := 0
		for _, ev := range evs {
			if ev.name == "write" && wo == 0 {
				wo = ev.ord
			}
		}
		writeOrd[sz] = wo
		if wo > 0 {
			for _, n := range offs {
				items = append(items, fsItem{Size: sz, Mode: "crash-byte", At: n})
			}
		}
		for i, ev := range evs {
			items = append(items, fsItem{Size: sz, Mode: "crash-sys", Sys: ev.name, At: ev.ord, Seq: i})
			items = append(items, fsItem{Size: sz, Mode: "err-sys", Sys: ev.name, At: ev.ord, Seq: i})
			if sz == 60 {
				items = append(items, fsItem{Size: sz, Mode: "err-sys-retry", Sys: ev.name, At: ev.ord, Seq: i})
			}
			if sz == 60 || (tier == "thorough" && sz > 4000) {
				items = append(items, fsItem{Size: sz, Mode: "pause-sys", Sys: ev.name, At: ev.ord, Seq: i})
			}
			if sz == 60 || (tier == "thorough" && sz == 4097) {
				// two writers, one of them unlucky: A held at this syscall while B completes, then one
				// of A's last syscalls fails; or B, started while A is held, dies at one of its last ones
				for j := len(evs) - 3; j < len(evs); j++ {
					if j <= i || j < 0 || evs[j].name == ev.name {
						continue
					}
					items = append(items, fsItem{Size: sz, Mode: "pause-fail", Sys: ev.name, At: ev.ord, Seq: i, Sys2: evs[j].name, At2: evs[j].ord})
				}
				for j := len(evs) - 3; j < len(evs); j++ {
					if j < 0 {
						continue
					}
					items = append(items, fsItem{Size: sz, Mode: "pause-bkill", Sys: ev.name, At: ev.ord, Seq: i, Sys2: evs[j].name, At2: evs[j].ord})
				}
			}
		}
	}
	return items, writeOrd, recs, nil
}

func bareWorld(sc *Scenario) *World {
	return &World{sc: sc, prop: sc.Property, st: newStats(), log: newHasher(), ch: NewChooser(sc.Seed)}
}

func itemToScenario(prop string, seed uint64, it fsItem, writeOrd int) *Scenario {
	return &Scenario{Property: prop, Engine: "filestore", Seed: seed,
		Ops:   []Op{{K: "fileinject", F: it.Mode + ":" + it.Sys + ":" + it.Sys2, N: it.At, Key: it.Size, Val: writeOrd, A: it.Seq, B: it.At2}},
	}
}

// RunFileScenario replays one injection (engine "filestore").
func RunFileScenario(t *testing.T, sc *Scenario) *World {
	w := bareWorld(sc)
	e, err := newFsEnv()
	if err != nil {
		w.st.Truncated = "harness: " + err.Error()
		return w
	}
	defer os.RemoveAll(e.work)
	if len(sc.Ops) == 0 {
		return w
	}
	op := sc.Ops[0]
	parts := strings.SplitN(op.F, ":", 3)
	it := fsItem{Size: op.Key, Mode: parts[0], At: op.N, Seq: op.A, At2: op.B}
	if len(parts) > 1 {
		it.Sys = parts[1]
	}
	if len(parts) > 2 {
		it.Sys2 = parts[2]
	}
	o, err := e.runItem(it, op.Val)
	if err != nil {
		w.st.Truncated = "harness: " + err.Error()
		return w
	}
	w.log.Str(o.listing)
	w.log.Str(o.verify)
	if o.sig != "" {
		w.viol = &Violation{Prop: sc.Property, Sig: fsSigFor(sc.Property, o.sig), Detail: o.detail}
	}
	return w
}

// fsSigFor renames a file-store signature when the injection is run on behalf of C18
// (two writers of the same name through the file back end).
func fsSigFor(prop, sig string) string {
	if prop == "C18" {
		return "C18/file-concurrent-writers/" + strings.TrimPrefix(sig, "C17/")
	}
	return sig
}

// runFileConcurrency: the C18 clause "writing the same name and bytes again, sequentially or
// concurrently, leaves it loadable" for the file back end: writer A held at each of its storage
// syscalls while writer B stores and reads back the same node (see runPauseItem).
func runFileConcurrency(env *ShardEnv, rep *ShardReport) {
	e, err := newFsEnv()
	if err != nil || !e.strace {
		rep.Probes["file-concurrency-skipped-no-strace"]++
		return
	}
	defer os.RemoveAll(e.work)
	items, writeOrd, _, err := e.fsEnumerate("quick", env.Seed)
	if err != nil {
		rep.Truncated["harness"]++
		return
	}
	n := 0
	for _, it := range items {
		if it.Mode != "pause-sys" && it.Mode != "two-writers-one-process" {
			continue
		}
		n++
		if n%env.Shards != env.Shard {
			continue
		}
		o, err := e.runItem(it, writeOrd[it.Size])
		if err != nil {
			rep.Truncated["harness"]++
			continue
		}
		rep.Evaluations++
		rep.OracleEvals++
		rep.Faults["file-writer-held-at-syscall"]++
		rep.Probes["file-two-writer-interleavings"]++
		if o.sig == "" {
			continue
		}
		sig := fsSigFor("C18", o.sig)
		if k, ok := env.Known[sig]; ok {
			rep.KnownHits[sig]++
			rep.KnownWhat[sig] = k.Finding
			continue
		}
		sc := itemToScenario("C18", env.Seed, it, writeOrd[it.Size])
		sc.Signature, sc.Detail = sig, o.detail
		os.MkdirAll(env.ReplayDir, 0o755)
		path := filepath.Join(env.ReplayDir, fmt.Sprintf("C18-s%d-file-%x.json", env.Shard, fnv64([]byte(it.String()))&0xffffffff))
		sc.Save(path)
		rep.Violations = append(rep.Violations, ViolationReport{Property: "C18", Signature: sig, Detail: o.detail, Replay: path, Seed: env.Seed, OpsBefore: 1, OpsAfter: 1})
	}
}

// RunFileStoreShard runs this shard's share of the enumeration.
func RunFileStoreShard(t *testing.T, env *ShardEnv) *ShardReport {
	rep := newShardReport(env.Prop, "filestore", env.Shard, env.Tier, env.Seed)
	liveReport = rep
	start := time.Now()
	e, err := newFsEnv()
	if err != nil {
		rep.Note = "harness trouble: " + err.Error()
		return rep
	}
	defer os.RemoveAll(e.work)
	defer func() {
		if e.tmpdir != "" {
			os.RemoveAll(e.tmpdir)
		}
	}()
	if e.tmpdir != "" {
		rep.Probes["children-run-with-TMPDIR-on-another-filesystem"]++
	}
	items, writeOrd, recs, err := e.fsEnumerate(env.Tier, env.Seed)
	if err != nil {
		rep.Note = "harness trouble: " + err.Error()
		return rep
	}
	if !e.strace {
		rep.Note = "strace not usable in this sandbox: crash-at-byte and syscall-level injections skipped; only I/O-error-at-byte-N (RLIMIT_FSIZE) ran"
	}
	nt := map[uint64]bool{}
	unknown := map[string]bool{}
	complete := true
	for idx, it := range items {
		if idx%env.Shards != env.Shard {
			continue
		}
		if time.Since(start) > env.Budget*3 {
			complete = false
			break
		}
		o1, err := e.runItem(it, writeOrd[it.Size])
		if err != nil {
			rep.Truncated["harness"]++
			rep.Note = "harness trouble: " + err.Error()
			continue
		}
		// every injected run is executed twice and must be judged identically
		o2 := o1
		if (!strings.HasPrefix(it.Mode, "pause-") && it.Mode != "two-writers-one-process") || o1.sig != "" {
			o2, err = e.runItem(it, writeOrd[it.Size])
		}
		rep.Evaluations++
		rep.Steps += 2
		rep.OracleEvals++
		if err != nil || o1.sig != o2.sig || o1.listing != o2.listing {
			rep.Truncated["nondeterministic-injection"]++
			continue
		}
		rep.Faults[it.Mode]++
		if o1.killed {
			rep.Probes["process-killed"]++
		}
		if strings.HasPrefix(o1.storeOut, "STORE error") {
			rep.Probes["store-returned-error"]++
		}
		if o1.storeOut == "STORE ok" {
			rep.Probes["store-returned-ok-despite-injection"]++
		}
		if strings.Contains(o1.listing, "<other>") {
			rep.Probes["leftover-temp-file"]++
		}
		if strings.Contains(o1.verify, "LOAD1 error") {
			rep.Probes["load-after-restart-not-found"]++
		}
		if strings.Contains(o1.verify, "LOAD1 complete") {
			rep.Probes["load-after-restart-complete"]++
		}
		h := newHasher()
		h.Str(it.String())
		nt[h.Sum()] = true
		if len(rep.Samples) < 2 && env.Shard < 2 {
			rep.Samples = append(rep.Samples, mustJSON(map[string]interface{}{"injection": it.String(), "store": o1.storeOut, "killed": o1.killed, "dir_after": o1.listing, "after_restart": strings.Split(o1.verify, "\n")}))
		}
		if o1.sig != "" {
			if k, ok := env.Known[o1.sig]; ok {
				rep.KnownHits[o1.sig]++
				rep.KnownWhat[o1.sig] = k.Finding
				continue
			}
			if unknown[o1.sig] {
				continue
			}
			unknown[o1.sig] = true
			sc := itemToScenario(env.Prop, env.Seed, it, writeOrd[it.Size])
			sc.Signature, sc.Detail = o1.sig, o1.detail
			name := fmt.Sprintf("%s-s%d-%x.json", env.Prop, env.Shard, fnv64([]byte(it.String()))&0xffffffff)
			path := filepath.Join(env.ReplayDir, name)
			os.MkdirAll(env.ReplayDir, 0o755)
			sc.Save(path)
			rep.Violations = append(rep.Violations, ViolationReport{Property: env.Prop, Signature: o1.sig, Detail: o1.detail, Replay: path, Seed: env.Seed, OpsBefore: 1, OpsAfter: 1})
		}
	}
	if env.Shard == 0 {
		for sz, evs := range recs {
			var names []string
			for _, ev := range evs {
				names = append(names, ev.name)
			}
			rep.Samples = append(rep.Samples, mustJSON(map[string]interface{}{"record_run_size": sz, "storage_syscalls_of_current_code": names}))
			if len(rep.Samples) >= 3 {
				break
			}
		}
	}
	for h := range nt {
		rep.NonTrivial = append(rep.NonTrivial, h)
	}
	rep.Exhaustive = complete
	rep.WallS = time.Since(start).Seconds()
	return rep
}

func init() {
	extraEngines["filestore"] = RunFileStoreShard
	extraReplayers["filestore"] = RunFileScenario
	propTable["C17"] = PropInfo{Engine: "filestore", Level: "fault_enumeration", QuickS: 40, ThorS: 600,
		Rule: "one evaluation = one injection into a child process running the real persist/file Store on a real directory, executed twice (identical outcome required), each followed by restart + Load/Store/Load: (a) I/O error at byte N via RLIMIT_FSIZE=N, (b) crash at byte N (RLIMIT_FSIZE=N plus strace KILL on entry to the retry write), (c) KILL on entry to and (d) EIO from every storage syscall the current code issues (taken from a strace record run), (e) two writers of one name at syscall granularity: writer A held at each syscall while B stores and reads back (pause-sys), then additionally one of A's last syscalls failing (pause-fail) or B killed at one of its last syscalls (pause-bkill), (f) a cancelled context, (g) two goroutines in one process; N ranges over every offset of the 1- and 60-byte nodes and boundary+sampled offsets of larger ones; every injection is distinct and non-trivial (it lands inside the Store)",
		Assumptions: []string{"real Linux kernel file semantics (tmpfs/ext4 of the sandbox); process crash, not power loss: completed syscalls persist", "strace (ptrace) syscall injection and per-thread when= counters; the child pins its work to the main OS thread", "RLIMIT_FSIZE short-write behaviour of the kernel"},
		Components: map[string][]string{
			"real": {"persist/file (built from /repo's working tree) in a child process", "Linux kernel file system", "os package"},
			"stub": {"none (faults injected at the syscall boundary by RLIMIT_FSIZE and strace)"},
		},
	}
}
