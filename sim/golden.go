package sim

import (
	"strconv"
	"bytes"
	"encoding/hex"
	"encoding/json"
	"fmt"
	"math"
	"os"
	"path/filepath"
	"sort"
	"testing"
	"time"

	"github.com/jrhy/mast"
)

// C14: serialized format, hashing inputs, key order and layers are stable.
//
// This property has no schedule or fault of its own. What the simulator contributes is the
// upgrade/restart scenario on frozen disk images written by the pinned release, plus seam
// monitoring of every Store with an independent encoder, hash and layer function.

// GoldenImage is one frozen disk image: store contents + Root + the entries it holds.
type GoldenImage struct {
	Provenance string            `json:"provenance"`
	Cfg        Config            `json:"config"`
	DefaultOptions bool          `json:"default_options,omitempty"` // created with NewRoot(nil)
	Entries    []Entry           `json:"entries"` // ascending key order (harness order); indexes at generation time
	// the concrete keys and values as JSON, in the same order: the image is self-contained and does
	// not depend on how the harness's dialects map indexes to keys/values today
	KeysJSON   []json.RawMessage `json:"keys_json"`
	ValsJSON   []json.RawMessage `json:"vals_json"`
	Root       json.RawMessage   `json:"root"`
	Nodes      map[string]string `json:"nodes"` // name -> hex bytes
}

func goldenConfigs() []Config {
	var out []Config
	for _, f := range []string{FmtBinary, FmtMarshaler} {
		for _, kd := range []string{"int", "int64", "uint", "uint64", "string", "bytes", "struct"} {
			for _, bf := range []uint{2, 3, 4, 10, 16} {
				for _, n := range []int{1, 7, 60} {
					vd := []string{"int", "string", "struct"}[(len(out))%3]
					out = append(out, Config{BF: bf, Format: f, Marshaler: "json", KeyD: kd, ValD: vd, Cache: "none", Disks: 1, U: 240, CheckEvery: n})
				}
			}
		}
	}
	// taller trees
	for _, f := range []string{FmtBinary, FmtMarshaler} {
		for _, kd := range []string{"int", "string", "uint64"} {
			out = append(out, Config{BF: 2, Format: f, Marshaler: "json", KeyD: kd, ValD: "int", Cache: "none", Disks: 1, U: 240, CheckEvery: 200})
			out = append(out, Config{BF: 16, Format: f, Marshaler: "json", KeyD: kd, ValD: "string", Cache: "none", Disks: 1, U: 240, CheckEvery: 230})
		}
	}
	return out
}

// goldenEntries: the entries of image i (n keys spread over the universe incl. the extreme keys).
func goldenEntries(cfg Config, n int, seed uint64) []Entry {
	g := NewGen(seed)
	kd := NewKeyDialect(cfg.KeyD, cfg.U, nil)
	picked := map[int]bool{}
	for len(picked) < n {
		picked[g.Intn(cfg.U)] = true
	}
	var es []Entry
	for k := range picked {
		es = append(es, Entry{k, g.Intn(50)})
	}
	sort.Slice(es, func(i, j int) bool { return kd.Less(es[i].K, es[j].K) })
	return es
}

// WriteGolden writes the frozen images with the library this binary is linked against
// (run once, linked against the pinned release; see DESIGN.md).
func WriteGolden(dir, provenance string) error {
	os.MkdirAll(dir, 0o755)
	for i, cfg := range goldenConfigs() {
		n := cfg.CheckEvery
		cfg.CheckEvery = 0
		es := goldenEntries(cfg, n, uint64(i)*977+5)
		kd := NewKeyDialect(cfg.KeyD, cfg.U, nil)
		vd := &ValDialect{cfg.ValD}
		disk := NewSimDisk("sim://golden")
		img := GoldenImage{Provenance: provenance, Cfg: cfg, Entries: es, Nodes: map[string]string{}}
		root := cfg.NewRoot()
		if i%17 == 0 && cfg.BF == 16 && cfg.Format == FmtBinary {
			root = mast.NewRoot(nil)
			img.DefaultOptions = true
		}
		m, err := root.LoadMast(ctx, cfg.RemoteConfig(kd, vd, disk, nil, nil))
		if err != nil {
			return err
		}
		for _, e := range es { // ascending inserts only: the simplest history
			if err := m.Insert(ctx, kd.Key(e.K), vd.Val(e.V)); err != nil {
				return err
			}
			kj, _ := json.Marshal(kd.Key(e.K))
			vj, _ := json.Marshal(vd.Val(e.V))
			img.KeysJSON = append(img.KeysJSON, kj)
			img.ValsJSON = append(img.ValsJSON, vj)
		}
		r, err := m.MakeRoot(ctx)
		if err != nil {
			return err
		}
		img.Root, _ = json.Marshal(r)
		for _, name := range disk.Names() {
			b, _ := disk.Bytes(name)
			img.Nodes[name] = hex.EncodeToString(b)
		}
		b, _ := json.Marshal(img)
		if err := os.WriteFile(filepath.Join(dir, fmt.Sprintf("img-%03d.json", i)), b, 0o644); err != nil {
			return err
		}
	}
	return nil
}

func goldenDir() string {
	d := os.Getenv("VERIF_DIR")
	if d == "" {
		d = "/verif"
	}
	return filepath.Join(d, "golden")
}

// checkGoldenImage runs the upgrade scenario and the same-contents-same-root scenario for one image.
func checkGoldenImage(t *testing.T, path string, seed uint64) (sig, detail string, steps int) {
	b, err := os.ReadFile(path)
	if err != nil {
		return "HARNESS", err.Error(), 0
	}
	var img GoldenImage
	if err := json.Unmarshal(b, &img); err != nil {
		return "HARNESS", err.Error(), 0
	}
	cfg := img.Cfg
	if strconv.IntSize == 32 && (cfg.KeyD == "int" || cfg.KeyD == "uint") {
		return "", "", 0 // keys of the native width written on a 64-bit host do not fit this host's int
	}
	kd := NewKeyDialect(cfg.KeyD, cfg.U, nil)
	vd := &ValDialect{cfg.ValD}
	var root mast.Root
	if err := json.Unmarshal(img.Root, &root); err != nil {
		return "HARNESS", err.Error(), 0
	}
	tag := fmt.Sprintf("%s/%s/bf%d", cfg.Format, cfg.KeyD, cfg.BF)
	// (1) restart on a disk written by the earlier release
	disk := NewSimDisk("sim://golden")
	for n, h := range img.Nodes {
		bb, _ := hex.DecodeString(h)
		disk.Put(n, bb)
	}
	if len(img.KeysJSON) != len(img.Entries) || len(img.ValsJSON) != len(img.Entries) {
		return "HARNESS", "image without concrete keys/values: " + path, 0
	}
	keys := make([]interface{}, len(img.Entries))
	vals := make([]interface{}, len(img.Entries))
	var want []string
	for i := range img.Entries {
		pk := newPtrLike(kd.Like())
		pv := newPtrLike(vd.Like())
		if err := json.Unmarshal(img.KeysJSON[i], pk); err != nil {
			return "HARNESS", err.Error(), 0
		}
		if err := json.Unmarshal(img.ValsJSON[i], pv); err != nil {
			return "HARNESS", err.Error(), 0
		}
		keys[i], vals[i] = derefPtr(pk), derefPtr(pv)
		want = append(want, string(img.KeysJSON[i])+"="+string(img.ValsJSON[i]))
	}
	jsonOf := func(k, v interface{}) string {
		kj, _ := json.Marshal(k)
		vj, _ := json.Marshal(v)
		return string(kj) + "=" + string(vj)
	}
	var got []string
	res := guard(func() error {
		m, err := root.LoadMast(ctx, cfg.RemoteConfig(kd, vd, disk, nil, nil))
		if err != nil {
			return err
		}
		return m.Iter(ctx, func(k, v interface{}) error {
			got = append(got, jsonOf(k, v))
			return nil
		})
	})
	steps += disk.LogLen()
	if res.bad() {
		return "C14/frozen-image-does-not-load/" + tag, fmt.Sprintf("%s: a tree written by %s no longer loads: %s", filepath.Base(path), img.Provenance, res), steps
	}
	if !sameStrs(got, want) {
		return "C14/frozen-image-reads-differently/" + tag, fmt.Sprintf("%s: entries/order read from the frozen image differ: %s", filepath.Base(path), firstDiff(got, want)), steps
	}
	// (2) same contents => same root on this build, through a seeded random history
	g := NewGen(seed)
	d2 := NewSimDisk("sim://rebuild")
	// every Store of the rebuild is compared with the independent encoder
	var monViol string
	d2.onStore = func(name string, bb []byte) {
		dn, err := DecodeNode(cfg.Format, bb)
		if err != nil {
			monViol = fmt.Sprintf("node %s is not decodable as %s: %v", name, cfg.Format, err)
			return
		}
		if string(EncodeNode(cfg.Format, dn.Keys, dn.Vals, dn.Links)) != string(bb) {
			monViol = fmt.Sprintf("node %s: bytes differ from the published format as re-encoded by the independent encoder", name)
		}
	}
	r0 := cfg.NewRoot()
	if img.DefaultOptions {
		r0 = mast.NewRoot(nil)
		if r0.BranchFactor != 16 || r0.NodeFormat != FmtBinary {
			return "C14/new-tree-defaults-changed", fmt.Sprintf("NewRoot(nil) = bf %d format %q, published defaults are 16 and %q", r0.BranchFactor, r0.NodeFormat, FmtBinary), steps
		}
	}
	var r2 *mast.Root
	res = guard(func() error {
		m, err := r0.LoadMast(ctx, cfg.RemoteConfig(kd, vd, d2, nil, nil))
		if err != nil {
			return err
		}
		order := make([]int, len(img.Entries))
		for i := range order {
			order[i] = i
		}
		for i := len(order) - 1; i > 0; i-- {
			j := g.Intn(i + 1)
			order[i], order[j] = order[j], order[i]
		}
		inModel := map[string]bool{}
		for _, kj := range img.KeysJSON {
			inModel[string(kj)] = true
		}
		var extras []int
		for i := 0; i < 5; i++ {
			k := g.Intn(cfg.U)
			kj, _ := json.Marshal(kd.Key(k))
			if !inModel[string(kj)] {
				inModel[string(kj)] = true
				extras = append(extras, k)
			}
		}
		for i, ei := range order {
			if i < len(extras) {
				if err := m.Insert(ctx, kd.Key(extras[i]), vd.Val(1)); err != nil {
					return err
				}
			}
			if err := m.Insert(ctx, keys[ei], vals[ei]); err != nil {
				return err
			}
		}
		for i := range extras {
			if i < len(order) {
				if err := m.Delete(ctx, kd.Key(extras[i]), vd.Val(1)); err != nil {
					return err
				}
			}
		}
		r2, err = m.MakeRoot(ctx)
		return err
	})
	steps += d2.LogLen()
	if res.bad() {
		return "C14/rebuild-fails/" + tag, fmt.Sprintf("%s: rebuilding the image's contents failed: %s", filepath.Base(path), res), steps
	}
	if monViol != "" {
		return "C14/bytes-differ-from-published-format/" + tag, filepath.Base(path) + ": " + monViol, steps
	}
	if rootLink(r2) != rootLink(&root) || r2.Height != root.Height || r2.Size != root.Size || r2.BranchFactor != root.BranchFactor || r2.NodeFormat != root.NodeFormat {
		return "C14/same-contents-different-root/" + tag, fmt.Sprintf("%s: contents of the frozen image rebuilt on this build give root {%q h=%d size=%d bf=%d %s}, the frozen root is {%q h=%d size=%d bf=%d %s}",
			filepath.Base(path), rootLink(r2), r2.Height, r2.Size, r2.BranchFactor, r2.NodeFormat, rootLink(&root), root.Height, root.Size, root.BranchFactor, root.NodeFormat), steps
	}
	return "", "", steps
}

// layerVectors compares the library's exported layer function and default key order with the
// independent re-implementation over sampled keys of every built-in type and branch factor.
func layerVectors() (sig, detail string, n int) {
	layer := mast.DefaultLayer(json.Marshal)
	cmp := mast.DefaultKeyCompare(json.Marshal)
	bfs := []uint{2, 3, 4, 5, 7, 10, 16, 100, 255}
	var ints []int64
	for i := int64(-40); i <= 40; i++ {
		ints = append(ints, i, i*16, i*100, i*243, i*1024, i*1000000)
	}
	ints = append(ints, math.MinInt64, math.MaxInt64, math.MinInt64+1, -6000000000000000000, 1<<62, -(1 << 62))
	for _, bf := range bfs {
		for _, v := range ints {
			type tc struct {
				k    interface{}
				want int
			}
			cases := []tc{{v, divLayerI(v, bf)}, {int(v), divLayerI(int64(int(v)), bf)}, {uint64(v), divLayerU(uint64(v), bf)}, {uint(v), divLayerU(uint64(uint(v)), bf)},
				{int32(v), divLayerI(int64(int32(v)), bf)}, {int16(v), divLayerI(int64(int16(v)), bf)}, {int8(v), divLayerI(int64(int8(v)), bf)},
				{uint32(v), divLayerU(uint64(uint32(v)), bf)}, {uint16(v), divLayerU(uint64(uint16(v)), bf)}, {uint8(v), divLayerU(uint64(uint8(v)), bf)}}
			for _, c := range cases {
				n++
				got, err := layer(c.k, bf)
				if err != nil || int(got) != c.want {
					return fmt.Sprintf("C14/layer-differs/%T", c.k), fmt.Sprintf("layer of %T %v at branch factor %d = %d (err %v), published rule gives %d", c.k, c.k, bf, got, err, c.want), n
				}
			}
		}
		for i := 0; i < 400; i++ {
			s := fmt.Sprintf("key-%d/%d", i, i*i)
			if i%7 == 0 {
				s += "<&>"
			}
			if i%5 == 3 {
				// long keys: 100-500 bytes
				for len(s) < 100+i {
					s += "/segment-" + fmt.Sprint(len(s))
				}
			}
			for _, k := range []interface{}{s, []byte(s), SKey{A: i, B: s}} {
				n++
				got, err := layer(k, bf)
				want := IndepLayer(k, bf)
				if err != nil || int(got) != want {
					return fmt.Sprintf("C14/layer-differs/%T", k), fmt.Sprintf("layer of %T %q at branch factor %d = %d (err %v), published rule (CRC-64/ECMA of the bytes) gives %d", k, s, bf, got, err, want), n
				}
			}
		}
	}
	// default key order
	sgn := func(x int) int {
		if x < 0 {
			return -1
		}
		if x > 0 {
			return 1
		}
		return 0
	}
	for _, a := range ints {
		for _, b := range []int64{a, a + 1, -a, 0, math.MinInt64, math.MaxInt64} {
			n++
			want := 0
			if a < b {
				want = -1
			} else if a > b {
				want = 1
			}
			// (the native int pair is compared as converted: on a 32-bit host the conversion truncates)
			wantN := 0
			if int(a) < int(b) {
				wantN = -1
			} else if int(a) > int(b) {
				wantN = 1
			}
			for pi, p := range [][2]interface{}{{a, b}, {int(a), int(b)}} {
				w := want
				if pi == 1 {
					w = wantN
				}
				got, err := cmp(p[0], p[1])
				if err != nil || sgn(got) != w {
					return fmt.Sprintf("C14/default-order-differs/%T", p[0]), fmt.Sprintf("DefaultKeyCompare(%v, %v) = %d (err %v), want sign %d", p[0], p[1], got, err, w), n
				}
			}
			ua, ub := uint64(a), uint64(b)
			wantU := 0
			if ua < ub {
				wantU = -1
			} else if ua > ub {
				wantU = 1
			}
			got, err := cmp(ua, ub)
			if err != nil || sgn(got) != wantU {
				return "C14/default-order-differs/uint64", fmt.Sprintf("DefaultKeyCompare(%v, %v) = %d (err %v), want sign %d", ua, ub, got, err, wantU), n
			}
		}
	}
	// sized integers have no arm of their own in the published default order: they are ordered by
	// their marshaled bytes (JSON decimal text), e.g. -1 < -12 < -3 < 10 < 100 < 11 < 2 < 9
	small := []int64{-128, -100, -12, -3, -1, 0, 1, 2, 9, 10, 11, 25, 99, 100, 101, 127}
	for _, a := range small {
		for _, b := range small {
			ja, _ := json.Marshal(a)
			jb, _ := json.Marshal(b)
			want := bytes.Compare(ja, jb)
			pairs := [][2]interface{}{{int8(a), int8(b)}, {int16(a), int16(b)}, {int32(a), int32(b)}}
			if a >= 0 && b >= 0 {
				pairs = append(pairs, [2]interface{}{uint8(a), uint8(b)}, [2]interface{}{uint16(a), uint16(b)}, [2]interface{}{uint32(a), uint32(b)})
			}
			for _, p := range pairs {
				n++
				got, err := cmp(p[0], p[1])
				if err != nil || sgn(got) != sgn(want) {
					return fmt.Sprintf("C14/default-order-differs/%T", p[0]), fmt.Sprintf("DefaultKeyCompare(%T %v, %v) = %d (err %v); the published order of sized integers is that of their marshaled bytes: sign %d", p[0], p[0], p[1], got, err, sgn(want)), n
				}
			}
		}
	}
	strs := []string{"", "a", "A", "a<", "a&", "ab", "b", "é", "k10", "k9", "k<1>", "\x00", "\xff"}
	for _, a := range strs {
		for _, b := range strs {
			n++
			want := 0
			if a < b {
				want = -1
			} else if a > b {
				want = 1
			}
			got, err := cmp(a, b)
			got2, err2 := cmp([]byte(a), []byte(b))
			if err != nil || err2 != nil || sgn(got) != want || sgn(got2) != want {
				return "C14/default-order-differs/string", fmt.Sprintf("DefaultKeyCompare(%q, %q) = %d / bytes %d, want sign %d", a, b, got, got2, want), n
			}
		}
	}
	// new-tree defaults
	r := mast.NewRoot(nil)
	if r.BranchFactor != 16 || r.NodeFormat != FmtBinary || r.Link != nil || r.Size != 0 || r.Height != 0 {
		return "C14/new-tree-defaults-changed", fmt.Sprintf("NewRoot(nil) = %+v, published defaults: branch factor 16, format %s, empty", *r, FmtBinary), n
	}
	if r := mast.NewRoot(&mast.CreateRemoteOptions{BranchFactor: 4}); r.BranchFactor != 4 || r.NodeFormat != FmtBinary {
		return "C14/new-tree-defaults-changed", fmt.Sprintf("NewRoot(BranchFactor: 4) = bf %d format %q; an unset NodeFormat defaults to %s", r.BranchFactor, r.NodeFormat, FmtBinary), n
	}
	if r := mast.NewRoot(&mast.CreateRemoteOptions{NodeFormat: mast.V1Marshaler}); r.BranchFactor != 16 || r.NodeFormat != FmtMarshaler {
		return "C14/new-tree-defaults-changed", fmt.Sprintf("NewRoot(NodeFormat: v1marshaler) = bf %d format %q; an unset BranchFactor defaults to 16", r.BranchFactor, r.NodeFormat), n
	}
	if r := mast.NewRoot(&mast.CreateRemoteOptions{}); r.BranchFactor != 16 || r.NodeFormat != FmtBinary {
		return "C14/new-tree-defaults-changed", fmt.Sprintf("NewRoot(empty options) = bf %d format %q", r.BranchFactor, r.NodeFormat), n
	}
	if mast.DefaultBranchFactor != 16 {
		return "C14/new-tree-defaults-changed", fmt.Sprintf("DefaultBranchFactor = %d", mast.DefaultBranchFactor), n
	}
	return "", "", n
}

// RunGoldenScenario replays a C14 violation (engine "golden").
func RunGoldenScenario(t *testing.T, sc *Scenario) *World {
	w := bareWorld(sc)
	if len(sc.Ops) == 0 {
		return w
	}
	op := sc.Ops[0]
	var sig, detail string
	switch op.K {
	case "image":
		sig, detail, _ = checkGoldenImage(t, filepath.Join(goldenDir(), op.F), sc.Seed)
	case "vectors":
		sig, detail, _ = layerVectors()
	}
	w.log.Str(sig)
	if sig == "HARNESS" {
		w.st.Truncated = "harness: " + detail
	} else if sig != "" {
		if os.Getenv("VERIF_HOST32") == "1" {
			sig += "/on-32-bit-host"
		}
		w.viol = &Violation{Prop: "C14", Sig: sig, Detail: detail}
	}
	return w
}

// RunGoldenShard: frozen images (split over shards), vectors (shard 0), then seeded histories with
// the independent-encoder / independent-layer monitors for the rest of the budget.
func RunGoldenShard(t *testing.T, env *ShardEnv) *ShardReport {
	rep := newShardReport(env.Prop, "golden", env.Shard, env.Tier, env.Seed)
	liveReport = rep
	start := time.Now()
	files, _ := filepath.Glob(filepath.Join(goldenDir(), "img-*.json"))
	sort.Strings(files)
	nt := map[uint64]bool{}
	seen := map[string]bool{}
	// one shard of the C14 check is a GOARCH=386 build of this simulator (when the host can run
	// it): it reads every frozen image and the vectors on a 32-bit "host"; the other shards then
	// share the images among themselves
	host32 := os.Getenv("VERIF_HOST32") == "1"
	imgShards := envInt("VERIF_IMG_SHARDS", env.Shards)
	report := func(sc *Scenario, sig, detail string) {
		if sig == "" || seen[sig] {
			return
		}
		seen[sig] = true
		if sig == "HARNESS" {
			rep.Truncated["harness"]++
			rep.Note = "harness trouble: " + detail
			return
		}
		if host32 {
			sig += "/on-32-bit-host"
		}
		if k, ok := env.Known[sig]; ok {
			rep.KnownHits[sig]++
			rep.KnownWhat[sig] = k.Finding
			return
		}
		sc.Signature, sc.Detail = sig, detail
		os.MkdirAll(env.ReplayDir, 0o755)
		path := filepath.Join(env.ReplayDir, fmt.Sprintf("%s-s%d-%x.json", env.Prop, env.Shard, fnv64([]byte(sig+sc.Ops[0].F))&0xffffffff))
		sc.Save(path)
		rep.Violations = append(rep.Violations, ViolationReport{Property: env.Prop, Signature: sig, Detail: detail, Replay: path, Seed: sc.Seed, OpsBefore: 1, OpsAfter: 1})
	}
	if len(files) == 0 && env.Shard == 0 {
		rep.Note = "harness trouble: no frozen images under " + goldenDir()
		rep.Truncated["harness"]++
	}
	for i, f := range files {
		if !host32 && (env.Shard >= imgShards || i%imgShards != env.Shard) {
			continue
		}
		if host32 {
			rep.Probes["frozen-images-read-on-32-bit-host"]++
		}
		seed := mixSeed(env.Seed, uint64(i))
		sig, detail, steps := checkGoldenImage(t, f, seed)
		rep.Evaluations++
		rep.OracleEvals += 2
		rep.Steps += steps
		rep.Probes["frozen-images"]++
		nt[fnv64([]byte(f))] = true
		if len(rep.Samples) < 1 {
			rep.Samples = append(rep.Samples, mustJSON(map[string]string{"frozen_image": filepath.Base(f), "scenario": "restart on the frozen disk image and read it; rebuild its contents through a seeded random history (shuffled inserts, extra keys deleted) and compare the Root"}))
		}
		report(&Scenario{Property: "C14", Engine: "golden", Seed: seed, Ops: []Op{{K: "image", F: filepath.Base(f)}}}, sig, detail)
	}
	if env.Shard == 0 || host32 {
		sig, detail, n := layerVectors()
		rep.Evaluations++
		rep.OracleEvals += n
		rep.Probes["layer-and-order-vectors"] += n
		report(&Scenario{Property: "C14", Engine: "golden", Seed: env.Seed, Ops: []Op{{K: "vectors"}}}, sig, detail)
	}
	// seeded histories under the C14 monitors
	shardSeed := mixSeed(env.Seed, strSeed(env.Prop), uint64(env.Shard))
	unknown := 0
	for i := 0; ; i++ {
		if host32 || (env.MaxRuns > 0 && i >= env.MaxRuns) || time.Since(start) > env.Budget {
			break
		}
		seed := mixSeed(shardSeed, uint64(i))
		sc := GenScenario("C14", seed, env.Tier)
		w := RunScenario(t, sc)
		rep.Evaluations++
		rep.absorb(w.st)
		if w.st.OracleEvals > 0 {
			a, _ := runHash(sc, w)
			nt[a] = true
			if len(rep.Samples) < 2 && len(sc.Ops) < 30 {
				rep.Samples = append(rep.Samples, mustJSON(sc))
			}
		}
		if w.viol != nil {
			if k, ok := env.Known[w.viol.Sig]; ok {
				rep.KnownHits[w.viol.Sig]++
				rep.KnownWhat[w.viol.Sig] = k.Finding
				continue
			}
			vr := handleViolation(t, env, sc, w, RunScenario)
			if vr.Replay == "" {
				rep.Truncated["violation-not-reproducible-in-fresh-process"]++
				continue
			}
			rep.Violations = append(rep.Violations, vr)
			unknown++
			if unknown >= 3 {
				break
			}
		}
	}
	for h := range nt {
		rep.NonTrivial = append(rep.NonTrivial, h)
	}
	rep.WallS = time.Since(start).Seconds()
	return rep
}

func init() {
	extraEngines["golden"] = RunGoldenShard
	extraReplayers["golden"] = RunGoldenScenario
	propTable["C14"] = PropInfo{Engine: "golden", Level: "other", QuickS: 12, ThorS: 300,
		Rule: "evaluations = frozen disk images checked (restart-on-old-disk read-back + rebuild-through-random-history root comparison) + one vector sweep (layers of all built-in key types at 9 branch factors, default key order, NewRoot defaults) + seeded histories whose every Store is compared with the independent encoder and whose every persisted root is compared with the root name predicted by the independent layer function, reference MST builder, encoder and BLAKE2b; distinct = image file / hash of (config, ops)",
		Assumptions: []string{"frozen images under /verif/golden were written once by the pinned release (commit 5b9555e) through ascending inserts", "independent codec, CRC-64/ECMA, divisibility rule and BLAKE2b written in the harness from the published format", "no schedule or fault space of its own: claimed at level 'other'"},
	}
}
