package sim

import (
	"fmt"
	"strings"
	"testing/synctest"

	"github.com/jrhy/mast"
)

// op "copersist": two working trees on one store (typically a tree and its clone holding
// byte-identical new nodes) run MakeRoot at the same time. Each MakeRoot is its own goroutine;
// all Stores of both park in the disk and the chooser completes them one at a time, so the
// interleaving of the two flushes is a pure function of the tape. The moment one of them
// returns success, its root is judged against the durable map as it is right then (C03: the
// writes had completed before the call returned), whatever the other flush is still doing.

type coSide struct {
	t       *Tree
	done    chan struct{}
	root    *mast.Root
	res     callResult
	judged  bool
	preObs  []string
	ownFail int
	ver     *Version
}

func (w *World) opCoPersist(op *Op) {
	if w.cfg.InMemory {
		return
	}
	va := &Version{kind: "root", dead: true}
	vb := &Version{kind: "root", dead: true}
	w.addVersion(va)
	w.addVersion(vb)
	ta, tb := w.tree(op.T), w.tree(op.N)
	if ta == nil || tb == nil || ta == tb || ta.disk != tb.disk || ta.unsure || tb.unsure {
		return
	}
	d := w.disks[ta.disk]
	sides := []*coSide{{t: ta, ver: va}, {t: tb, ver: vb}}
	for _, s := range sides {
		s.preObs = w.modelObs(s.t.model)
		s.done = make(chan struct{})
	}
	faultPermille := 0
	if op.F == "faults" {
		faultPermille = op.B
	}
	d.BeginCall()
	d.SetScheduled(true)
	for i, s := range sides {
		s := s
		cctx := WithStoreOwner(ctx, i+1)
		go func() {
			defer close(s.done)
			s.res = guard(func() error {
				var err error
				s.root, err = s.t.m.MakeRoot(cctx)
				return err
			})
		}()
		// the second flush starts only once the first is parked in its Stores (or done)
		synctest.Wait()
	}
	var order []string
	anyFail := 0
	steps := 0
	w.st.Probes["concurrent-persist"]++
	draining := false
	for {
		synctest.Wait()
		allDone := true
		for i, s := range sides {
			select {
			case <-s.done:
				if !s.judged {
					s.judged = true
					if !draining && w.judgeCoSide(i, s, d, anyFail, order) {
						draining = true
					}
				}
			default:
				allDone = false
			}
		}
		parked := d.ParkedSorted()
		if allDone {
			if len(parked) > 0 && !draining {
				w.failFor("C03", "returned-with-writes-in-flight", "both concurrent MakeRoot calls returned while %d Store call(s) had not completed", len(parked))
			}
			for len(parked) > 0 {
				d.Release(parked[0], "ok")
				synctest.Wait()
				parked = d.ParkedSorted()
			}
			break
		}
		if len(parked) == 0 {
			if !draining {
				w.failFor("C03", "flush-deadlock", "two concurrent MakeRoot calls: one has not returned and has no Store in flight at quiescence (after %d steps; completions %v)", steps, order)
			}
			break
		}
		if draining {
			// a violation was filed: the other flush finishes on a healthy store, unjudged
			d.Release(parked[0], "ok")
			continue
		}
		p := parked[w.ch.Intn(len(parked))]
		outcome := "ok"
		if faultPermille > 0 && w.ch.Intn(1000) < faultPermille {
			if w.ch.Intn(2) == 0 {
				outcome = "fail"
			} else {
				outcome = "acklost"
			}
		}
		if outcome != "ok" {
			anyFail++
			if p.Owner >= 1 && p.Owner <= 2 {
				sides[p.Owner-1].ownFail++
			}
			w.st.Faults["store-"+outcome]++
			w.st.Probes["concurrent-persist-with-failed-store"]++
		}
		order = append(order, fmt.Sprintf("%d:%s:%s", p.Owner, p.Name[:6], outcome))
		steps++
		d.Release(p, outcome)
	}
	d.SetScheduled(false)
	w.st.Steps += steps
	w.log.Str(strings.Join(order, ","))
	if len(order) >= 2 {
		w.st.Sched[fnv64([]byte(strings.Join(order, ",")))] = true
	}
	if w.stopped() {
		return
	}
	if w.monitorTripped(d) {
		return
	}
	for i, s := range sides {
		if s.res.err != nil {
			// the tree stays fully usable after a failed flush
			obs, r := w.observe(s.t.m)
			if r.bad() {
				w.failFor("C03", "tree-unusable-after-failed-flush", "after concurrent MakeRoot #%d reported %v the tree cannot be iterated: %s", i+1, s.res.err, r)
				return
			}
			if !sameStrs(obs, s.preObs) {
				w.failFor("C03", "tree-changed-by-failed-flush", "after failed concurrent MakeRoot #%d contents differ: %s", i+1, firstDiff(obs, s.preObs))
				return
			}
		}
		w.sanity(s.t, "copersist")
		if w.stopped() {
			return
		}
	}
}

// judgeCoSide judges one of the two concurrent MakeRoot calls at the quiescent point right
// after it returned. It reports true when a violation was filed and the run stops.
func (w *World) judgeCoSide(i int, s *coSide, d *SimDisk, anyFail int, order []string) bool {
	t := s.t
	if len(d.MonViol) > 0 {
		return false // bytes stored under a wrong name: filed by the write monitor after the op, nothing is read back
	}
	if s.res.panicked != nil {
		w.failFor("C03", "makeroot-panics/concurrent-persist", "MakeRoot #%d of two concurrent ones: %s (completions so far %v)", i+1, s.res, order)
		return true
	}
	w.st.OracleEvals++
	if s.res.err != nil {
		if w.cfg.Marshaler == "json" && w.hasUnmarshalable(t.model) {
			return false
		}
		if anyFail == 0 {
			w.failFor("C03", "concurrent-persist-fails-on-healthy-store", "MakeRoot #%d of two concurrent ones failed although no Store failed: %s", i+1, s.res)
			return true
		}
		t.flushFailedBefore = true
		return false
	}
	if s.ownFail > 0 {
		w.failFor("C03", "store-failure-not-reported", "%d of this tree's own Store calls failed (%v) but its MakeRoot, concurrent with another tree's, returned success", s.ownFail, order)
		return true
	}
	if w.cfg.Marshaler == "json" && w.hasUnmarshalable(t.model) {
		return false // judged by the single-tree persist (C08)
	}
	reach, obs, missing, r := w.reachByObservation(s.root, t.disk)
	_ = reach
	if len(missing) > 0 {
		w.failFor("C03", "root-incomplete/concurrent-persist", "MakeRoot #%d returned a root that reaches %d node(s) not in the store at the moment it returned (e.g. %s), while another tree's MakeRoot was writing the same nodes; completions so far %v", i+1, len(missing), missing[0], order)
		return true
	}
	if r.bad() {
		t.base, t.baseRoot = nil, nil
		return w.softFor("C05", "persisted-root-unloadable"+w.cfgPredicate(), "root returned by a concurrent MakeRoot cannot be loaded/iterated from the store: %s", r)
	}
	if !sameStrs(obs, s.preObs) {
		t.base, t.baseRoot = nil, nil
		return w.softFor("C05", "persisted-contents-differ"+w.cfgPredicate(), "contents loaded from the root of a concurrent MakeRoot differ from the tree's: %s", firstDiff(obs, s.preObs))
	}
	w.st.Probes["concurrent-persist-root-complete"]++
	if t.flushFailedBefore {
		t.flushFailedBefore = false
	}
	*s.ver = Version{kind: "root", root: s.root, disk: t.disk, snap: t.model.Clone(), obs: obs, obsOK: true}
	t.base = t.model.Clone()
	t.baseRoot = s.root
	t.baseHeight = int(s.root.Height)
	t.modKeys = map[int]bool{}
	t.hChanged = false
	return false
}

// op "replica": an interrupted replication. Only the top node of a persisted version (A) has
// been copied to the other store when somebody opens the version there (through the shared
// cache: opening reads just the top node) and then rebuilds the same contents in a fresh tree
// on that store and persists it. MakeRoot may skip what the cache has seen *in this store*, but
// everything else the returned root reaches must be in the store when it returns (C03).
func (w *World) opReplica(op *Op) {
	v := &Version{kind: "root", dead: true}
	w.addVersion(v)
	if w.cfg.InMemory || len(w.disks) < 2 {
		return
	}
	src := w.version(op.A)
	if src == nil || src.kind != "root" || src.dead || src.root == nil {
		return
	}
	top := rootLink(src.root)
	if top == "" {
		return
	}
	dst := (src.disk + 1) % len(w.disks)
	b, ok := w.disks[src.disk].Bytes(top)
	if !ok {
		return
	}
	w.disks[dst].Put(top, b)
	if _, r := w.loadRoot(src.root, dst, asNodeCache(w.cache), nil); r.bad() {
		return
	}
	t, r := w.newEmptyTree(dst)
	if r.bad() {
		w.failFor("C01", "newtree-fails", "creating an empty tree: %s", r)
		return
	}
	for _, e := range src.snap.Entries() {
		e := e
		if r := guard(func() error { return t.m.Insert(ctx, w.kd.Key(e.K), w.vd.Val(e.V)) }); r.bad() {
			w.failFor("C01", "insert-fails", "Insert(key#%d) while rebuilding a version: %s", e.K, r)
			return
		}
		t.model.Put(e.K, e.V)
	}
	w.placeTree(op.T, t)
	w.st.Probes["partial-replica-rebuilt"]++
	d := w.disks[dst]
	d.BeginCall()
	fr := w.schedMakeRoot(t.m, d, 0, 0, "", false)
	if w.monitorTripped(d) {
		return
	}
	if fr.deadlock {
		w.failFor("C03", "flush-deadlock", "MakeRoot neither returned nor has a Store in flight at quiescence (after %d steps)", fr.steps)
		return
	}
	if fr.res.bad() {
		if w.cfg.Marshaler == "json" && w.hasUnmarshalable(t.model) {
			return
		}
		w.failFor("C01", "persist-fails", "MakeRoot on healthy store: %s", fr.res)
		return
	}
	if fr.leftParked > 0 {
		w.failFor("C03", "returned-with-writes-in-flight", "MakeRoot returned success while %d Store call(s) had not completed", fr.leftParked)
		return
	}
	if w.cfg.Marshaler == "json" && w.hasUnmarshalable(t.model) {
		return
	}
	w.st.OracleEvals++
	_, obs, missing, rr := w.reachByObservation(fr.root, dst)
	if len(missing) > 0 {
		w.failFor("C03", "root-incomplete/partial-replica", "a store held only the top node of a version; the same contents were rebuilt and persisted there; the returned root reaches %d node(s) that are not in that store (e.g. %s)", len(missing), missing[0])
		return
	}
	if rr.bad() || !sameStrs(obs, w.modelObs(t.model)) {
		t.base, t.baseRoot = nil, nil
		w.softFor("C05", "persisted-contents-differ"+w.cfgPredicate(), "root of a rebuilt replica reads back differently: %s %s", rr, firstDiff(obs, w.modelObs(t.model)))
		return
	}
	*v = Version{kind: "root", root: fr.root, disk: dst, snap: t.model.Clone(), obs: obs, obsOK: true}
	t.base = t.model.Clone()
	t.baseRoot = fr.root
	t.baseHeight = int(fr.root.Height)
	t.modKeys = map[int]bool{}
	t.hChanged = false
}
