package sim

import (
	"bytes"
	"encoding/gob"
	"encoding/json"
	"fmt"
	"os"

	"github.com/jrhy/mast"
)

// Config is the per-run (swarm) configuration.
type Config struct {
	BF        uint    `json:"bf"`
	Format    string  `json:"format"`
	Marshaler string  `json:"marshaler"` // json | gob
	KeyD      string  `json:"keys"`
	ValD      string  `json:"vals"`
	Cache     string  `json:"cache"`
	Disks     int     `json:"disks"`
	U         int     `json:"universe"`
	Layers    []uint8 `json:"layers,omitempty"` // userkey dialect: layer per key index
	NoLike    bool    `json:"nolike,omitempty"` // registered types, no KeysLike/ValuesLike
	InMemory  bool    `json:"inmemory,omitempty"`
	CheckEvery int    `json:"check_every,omitempty"` // full-contents check every n ops (default 1)
	Mirror    string  `json:"mirror,omitempty"` // "file": every completed Store is also written through the real file store to a scratch directory
	Extra     string  `json:"extra,omitempty"` // generator note ("giant": one node of hundreds of entries)
	OneSided  string  `json:"onesided,omitempty"` // "keys" / "vals": only KeysLike / only ValuesLike is given (persisting may be refused; if it succeeds it must read back)
	Prefixes  string  `json:"prefixes,omitempty"` // how the two stores of a two-store run name themselves: "" sim://d0 sim://d1; "port": the S3 adapter's prefix for two endpoints differing in the port; "slash": "…/app" and "…/app/"
	CbOnly    string  `json:"cbonly,omitempty"` // "unmarshal": only RemoteConfig.Unmarshal is set (a number-preserving JSON decoder); "marshal": only RemoteConfig.Marshal is set
	CbFaults  bool    `json:"cbfaults,omitempty"` // Marshal/Unmarshal/KeyCompare are the counting wrappers; some inserts run with one Marshal call (outside any comparison) failing
	CmpScale  int     `json:"cmpscale,omitempty"` // loader KeyCompare returns CmpScale * sign (a comparator need not return exactly -1/0/1)
}

// Op is one explicit operation of a scenario.
type Op struct {
	K   string `json:"k"`
	T   int    `json:"t,omitempty"`   // working tree slot
	Key int    `json:"key,omitempty"` // key index
	Val int    `json:"val,omitempty"` // value index
	N   int    `json:"n,omitempty"`   // stop-after / count / disk
	A   int    `json:"a,omitempty"`   // version ref (old side for diffs)
	B   int    `json:"b,omitempty"`   // version ref (new side)
	S   []int  `json:"s,omitempty"`   // cursor script
	F   string `json:"f,omitempty"`   // flavour
}

func (o Op) String() string {
	b, _ := json.Marshal(o)
	return string(b)
}

// Scenario is one complete, self-contained, replayable run description.
type Scenario struct {
	Property  string `json:"property"`
	Engine    string `json:"engine"`
	Seed      uint64 `json:"seed"`      // run seed (generation + fallback for in-run choices)
	Cfg       Config `json:"config"`
	Ops       []Op   `json:"ops"`
	Tape      []int  `json:"tape,omitempty"`
	Extra     map[string]int `json:"extra,omitempty"`
	// filled for replay files
	Signature string `json:"signature,omitempty"`
	Detail    string `json:"detail,omitempty"`
	LogHash   string `json:"log_hash,omitempty"`
	ShrunkFrom int   `json:"shrunk_from_ops,omitempty"`
}

func LoadScenario(path string) (*Scenario, error) {
	b, err := os.ReadFile(path)
	if err != nil {
		return nil, err
	}
	var sc Scenario
	if err := json.Unmarshal(b, &sc); err != nil {
		return nil, err
	}
	return &sc, nil
}

func (sc *Scenario) Save(path string) error {
	b, err := json.MarshalIndent(sc, "", " ")
	if err != nil {
		return err
	}
	return os.WriteFile(path, b, 0o644)
}

func (sc *Scenario) Clone() *Scenario {
	c := *sc
	c.Ops = append([]Op(nil), sc.Ops...)
	for i := range c.Ops {
		c.Ops[i].S = append([]int(nil), sc.Ops[i].S...)
	}
	c.Tape = append([]int(nil), sc.Tape...)
	c.Cfg.Layers = append([]uint8(nil), sc.Cfg.Layers...)
	if sc.Extra != nil {
		c.Extra = map[string]int{}
		for k, v := range sc.Extra {
			c.Extra[k] = v
		}
	}
	return &c
}

// ---- marshalers (these are the *user's* callbacks, not library code) ----

func marshalGob(thing interface{}) ([]byte, error) {
	var network bytes.Buffer
	enc := gob.NewEncoder(&network)
	if err := enc.Encode(thing); err != nil {
		return nil, fmt.Errorf("encode: %w", err)
	}
	return network.Bytes(), nil
}

func unmarshalGob(input []byte, thing interface{}) error {
	dec := gob.NewDecoder(bytes.NewBuffer(input))
	if err := dec.Decode(thing); err != nil {
		return fmt.Errorf("decode: %w", err)
	}
	return nil
}

// xjson: a custom marshaler that is JSON with a one-byte prefix. Byte order of encodings (and so
// the default order of marshaled keys) is that of JSON; every encoding, and so the layer of every
// marshal-layered key, differs from plain JSON.
func marshalXJSON(v interface{}) ([]byte, error) {
	b, err := json.Marshal(v)
	if err != nil {
		return nil, err
	}
	return append([]byte{'~'}, b...), nil
}

func unmarshalXJSON(b []byte, v interface{}) error {
	if len(b) == 0 || b[0] != '~' {
		return fmt.Errorf("xjson: missing prefix")
	}
	return json.Unmarshal(b[1:], v)
}

func (c *Config) MarshalFn() func(interface{}) ([]byte, error) {
	switch c.Marshaler {
	case "gob":
		return marshalGob
	case "xjson":
		return marshalXJSON
	}
	return json.Marshal
}

func unmarshalUseNumber(b []byte, v interface{}) error {
	d := json.NewDecoder(bytes.NewReader(b))
	d.UseNumber()
	return d.Decode(v)
}

func (c *Config) UnmarshalFn() func([]byte, interface{}) error {
	if c.CbOnly == "unmarshal" {
		return unmarshalUseNumber
	}
	switch c.Marshaler {
	case "gob":
		return unmarshalGob
	case "xjson":
		return unmarshalXJSON
	}
	return json.Unmarshal
}

// RegisteredTypes reports whether the run uses UnmarshalerUsesRegisteredTypes.
func (c *Config) RegisteredTypes() bool {
	return c.ValD == "nil" || c.NoLike
}

// Callbacks lets fault injectors wrap the user callbacks.
type Callbacks struct {
	Marshal    func(interface{}) ([]byte, error)
	Unmarshal  func([]byte, interface{}) error
	KeyCompare func(a, b interface{}) (int, error)
}

func (c *Config) RemoteConfig(kd *KeyDialect, vd *ValDialect, p mast.Persist, cache mast.NodeCache, cb *Callbacks) *mast.RemoteConfig {
	rc := &mast.RemoteConfig{
		StoreImmutablePartsWith:        p,
		NodeCache:                      cache,
		UnmarshalerUsesRegisteredTypes: c.RegisteredTypes(),
	}
	if !c.NoLike {
		rc.KeysLike = kd.Like()
		rc.ValuesLike = vd.Like()
	}
	switch c.OneSided {
	case "keys":
		rc.ValuesLike = nil
	case "vals":
		rc.KeysLike = nil
	}
	if c.Marshaler != "json" && c.Marshaler != "" {
		rc.Marshal = c.MarshalFn()
		rc.Unmarshal = c.UnmarshalFn()
	}
	switch c.CbOnly {
	case "unmarshal":
		rc.Marshal, rc.Unmarshal = nil, unmarshalUseNumber
	case "marshal":
		rc.Marshal, rc.Unmarshal = json.Marshal, nil
	}
	if cb != nil {
		if cb.Marshal != nil {
			rc.Marshal = cb.Marshal
		}
		if cb.Unmarshal != nil {
			rc.Unmarshal = cb.Unmarshal
		}
		if cb.KeyCompare != nil {
			rc.KeyCompare = cb.KeyCompare
		}
	}
	return rc
}

func (c *Config) NewRoot() *mast.Root {
	if c.BF == 16 && c.Format == FmtBinary {
		// the documented defaults: the way most callers get their first root
		return mast.NewRoot(nil)
	}
	opts := &mast.CreateRemoteOptions{BranchFactor: c.BF}
	switch c.Format {
	case FmtBinary:
		opts.NodeFormat = mast.V115Binary
	case FmtMarshaler:
		opts.NodeFormat = mast.V1Marshaler
	}
	return mast.NewRoot(opts)
}
