package sim

import (
	"fmt"
	"os"
	"runtime"
	"runtime/pprof"
	"time"
)

// memWatch is a diagnostic aid: with VERIF_HEAPPROF=<path> set, a shard whose heap in use
// exceeds 2 GiB writes one heap profile to <path>.<pid> (once).
func memWatch() {
	path := os.Getenv("VERIF_HEAPPROF")
	if path == "" {
		return
	}
	go func() {
		for {
			time.Sleep(500 * time.Millisecond)
			var ms runtime.MemStats
			runtime.ReadMemStats(&ms)
			if ms.HeapInuse > 2<<30 {
				runtime.GC()
				runtime.GC()
				f, err := os.Create(fmt.Sprintf("%s.%d", path, os.Getpid()))
				if err == nil {
					pprof.Lookup("heap").WriteTo(f, 0)
					f.Close()
				}
				if sc := hang.sc.Load(); sc != nil {
					sc.Save(fmt.Sprintf("%s.%d.scenario.json", path, os.Getpid()))
				}
				return
			}
		}
	}()
}
