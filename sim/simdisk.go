package sim

import (
	"io/fs"
	"context"
	"errors"
	"fmt"
	"sort"
	"sync"
)

// Sentinel errors injected by the simulator.
var (
	ErrInjStore    = errors.New("sim: injected store failure")
	ErrInjAckLost  = errors.New("sim: injected store ack lost")
	ErrInjLoad     = errors.New("sim: injected load failure")
	// like the file store's, the not-found error says so in the standard way too
	ErrInjNotFound = fmt.Errorf("sim: object not found (%w)", fs.ErrNotExist)
)

// DiskEvent is one entry of the disk's event log.
type DiskEvent struct {
	Seq     int
	Kind    string // store, load
	Name    string
	Len     int
	Outcome string // ok, fail, acklost, notfound, loadfail
}

// Parked is a Store call waiting for the scheduler (scheduled mode).
type Parked struct {
	ID    int
	Name  string
	Bytes []byte
	Owner int // which caller issued the Store (from the context; 0 when not given)
	ch    chan storeDecision
}

type storeOwnerKey struct{}

// WithStoreOwner marks every Store issued under the returned context as coming from owner.
func WithStoreOwner(c context.Context, owner int) context.Context {
	return context.WithValue(c, storeOwnerKey{}, owner)
}

type storeDecision struct {
	outcome string // ok, fail, acklost
}

// Monitor violations found by the always-on write monitor (C08).
type MonitorViolation struct {
	Clause string
	Detail string
}

// SimDisk is the simulated durable node store. It implements mast.Persist.
// All mast code above it is real; this is the stub for the back end.
type SimDisk struct {
	mu      sync.Mutex
	prefix  string
	durable map[string][]byte
	log     []DiskEvent
	seq     int

	// per-API-call observation windows
	loadedNames map[string]int // name -> count, current window
	storedNames map[string]int
	loadCalls   int
	storeCalls  int

	// fault plan (inline mode): fail the i-th Load / Store call of the current window
	FailLoadAt    int // 1-based index within window; 0 = none
	FailLoadKind  string
	FailStoreAt   int
	FailStoreKind string
	GarbleLoadAt  int // the i-th Load of the window returns the first half of the bytes and no error
	Fired         map[string]int

	// scheduled mode
	scheduled bool
	parked    []*Parked
	nextID    int

	// write monitor
	written    map[string]uint64 // name -> fnv of bytes ever written (life of shard)
	MonViol    []MonitorViolation
	onStore    func(name string, b []byte)
	StoreTotal int
	LoadTotal  int
	// mirror, when set, receives every successfully completed Store as well (e.g. the real
	// file store on a scratch directory), so that what a real back end keeps can be inspected
	mirror    Persistish
	MirrorErr error
}

// Persistish is the subset of mast.Persist the mirror needs.
type Persistish interface {
	Store(context.Context, string, []byte) error
}

func NewSimDisk(prefix string) *SimDisk {
	return &SimDisk{
		prefix:      prefix,
		durable:     map[string][]byte{},
		loadedNames: map[string]int{},
		storedNames: map[string]int{},
		Fired:       map[string]int{},
		written:     map[string]uint64{},
	}
}

func (d *SimDisk) NodeURLPrefix() string { return d.prefix }

// BeginCall opens a fresh observation window.
func (d *SimDisk) BeginCall() {
	d.mu.Lock()
	d.loadedNames = map[string]int{}
	d.storedNames = map[string]int{}
	d.loadCalls = 0
	d.storeCalls = 0
	d.mu.Unlock()
}

// Window returns sorted distinct names loaded and stored in the current window.
func (d *SimDisk) Window() (loaded, stored []string, loadCalls, storeCalls int) {
	d.mu.Lock()
	defer d.mu.Unlock()
	for n := range d.loadedNames {
		loaded = append(loaded, n)
	}
	for n := range d.storedNames {
		stored = append(stored, n)
	}
	sort.Strings(loaded)
	sort.Strings(stored)
	return loaded, stored, d.loadCalls, d.storeCalls
}

func (d *SimDisk) ClearFaults() {
	d.mu.Lock()
	d.FailLoadAt, d.FailStoreAt = 0, 0
	d.GarbleLoadAt = 0
	d.FailLoadKind, d.FailStoreKind = "", ""
	d.mu.Unlock()
}

func (d *SimDisk) event(kind, name string, l int, outcome string) {
	d.seq++
	d.log = append(d.log, DiskEvent{d.seq, kind, name, l, outcome})
}

// monitorWrite is the C08 write monitor: name == b64url(BLAKE2b-256(bytes)),
// and a name is never written with different bytes.
func (d *SimDisk) monitorWrite(name string, b []byte) {
	want := nodeName(b)
	if want != name {
		d.MonViol = append(d.MonViol, MonitorViolation{"name-is-hash", fmt.Sprintf("stored under %q but bytes hash to %q (len %d)", name, want, len(b))})
	}
	h := fnv64(b)
	if prev, ok := d.written[name]; ok && prev != h {
		d.MonViol = append(d.MonViol, MonitorViolation{"name-rewritten-different-bytes", fmt.Sprintf("name %q written twice with different bytes", name)})
	}
	d.written[name] = h
}

func (d *SimDisk) Store(ctx context.Context, name string, b []byte) error {
	cp := append([]byte(nil), b...)
	d.mu.Lock()
	d.storeCalls++
	d.StoreTotal++
	d.storedNames[name]++
	idx := d.storeCalls
	d.monitorWrite(name, cp)
	if d.onStore != nil {
		d.onStore(name, cp)
	}
	if d.scheduled {
		p := &Parked{ID: d.nextID, Name: name, Bytes: cp, ch: make(chan storeDecision)}
		if o, ok := ctx.Value(storeOwnerKey{}).(int); ok {
			p.Owner = o
		}
		d.nextID++
		d.parked = append(d.parked, p)
		d.mu.Unlock()
		dec := <-p.ch
		d.mu.Lock()
		defer d.mu.Unlock()
		switch dec.outcome {
		case "fail":
			d.Fired["store-fail"]++
			d.event("store", name, len(cp), "fail")
			return ErrInjStore
		case "acklost":
			d.Fired["store-acklost"]++
			d.durable[name] = cp
			d.event("store", name, len(cp), "acklost")
			return ErrInjAckLost
		default:
			d.durable[name] = cp
			d.event("store", name, len(cp), "ok")
			d.toMirror(ctx, name, cp)
			return nil
		}
	}
	defer d.mu.Unlock()
	if d.FailStoreAt != 0 && idx == d.FailStoreAt {
		switch d.FailStoreKind {
		case "acklost":
			d.Fired["store-acklost"]++
			d.durable[name] = cp
			d.event("store", name, len(cp), "acklost")
			return ErrInjAckLost
		default:
			d.Fired["store-fail"]++
			d.event("store", name, len(cp), "fail")
			return ErrInjStore
		}
	}
	d.durable[name] = cp
	d.event("store", name, len(cp), "ok")
	d.toMirror(ctx, name, cp)
	return nil
}

func (d *SimDisk) toMirror(ctx context.Context, name string, b []byte) {
	if d.mirror == nil {
		return
	}
	if err := d.mirror.Store(ctx, name, b); err != nil && d.MirrorErr == nil {
		d.MirrorErr = err
	}
}

func (d *SimDisk) Load(ctx context.Context, name string) ([]byte, error) {
	if err := ctx.Err(); err != nil {
		// reads honour the caller's context (writes deliberately do not: see the C03 cancel flavour)
		return nil, err
	}
	d.mu.Lock()
	defer d.mu.Unlock()
	d.loadCalls++
	d.LoadTotal++
	d.loadedNames[name]++
	if d.FailLoadAt != 0 && d.loadCalls == d.FailLoadAt {
		if d.FailLoadKind == "notfound" {
			d.Fired["load-notfound"]++
			d.event("load", name, 0, "notfound")
			return nil, fmt.Errorf("%w: %s", ErrInjNotFound, name)
		}
		d.Fired["load-fail"]++
		d.event("load", name, 0, "loadfail")
		return nil, fmt.Errorf("%w: %s", ErrInjLoad, name)
	}
	b, ok := d.durable[name]
	if !ok {
		d.event("load", name, 0, "notfound")
		return nil, fmt.Errorf("%w: %s", ErrInjNotFound, name)
	}
	if d.GarbleLoadAt != 0 && d.loadCalls == d.GarbleLoadAt && len(b) > 1 {
		// an eventually consistent store serves a truncated object once, without an error
		d.Fired["load-truncated-bytes"]++
		d.event("load", name, len(b)/2, "truncated")
		return append([]byte(nil), b[:len(b)/2]...), nil
	}
	d.event("load", name, len(b), "ok")
	return append([]byte(nil), b...), nil
}

// ---- scheduled mode ----

func (d *SimDisk) SetScheduled(on bool) {
	d.mu.Lock()
	d.scheduled = on
	d.mu.Unlock()
}

// ParkedSorted returns the parked Stores in a deterministic order (name, then id).
func (d *SimDisk) ParkedSorted() []*Parked {
	d.mu.Lock()
	defer d.mu.Unlock()
	ps := append([]*Parked(nil), d.parked...)
	sort.Slice(ps, func(i, j int) bool {
		if ps[i].Name != ps[j].Name {
			return ps[i].Name < ps[j].Name
		}
		if ps[i].Owner != ps[j].Owner {
			return ps[i].Owner < ps[j].Owner
		}
		return ps[i].ID < ps[j].ID
	})
	return ps
}

// Release completes one parked Store with the given outcome.
func (d *SimDisk) Release(p *Parked, outcome string) {
	d.mu.Lock()
	for i, q := range d.parked {
		if q == p {
			d.parked = append(d.parked[:i], d.parked[i+1:]...)
			break
		}
	}
	d.mu.Unlock()
	p.ch <- storeDecision{outcome}
}

// ---- inspection ----

func (d *SimDisk) Has(name string) bool {
	d.mu.Lock()
	defer d.mu.Unlock()
	_, ok := d.durable[name]
	return ok
}

func (d *SimDisk) Bytes(name string) ([]byte, bool) {
	d.mu.Lock()
	defer d.mu.Unlock()
	b, ok := d.durable[name]
	return b, ok
}

func (d *SimDisk) Put(name string, b []byte) {
	d.mu.Lock()
	d.durable[name] = append([]byte(nil), b...)
	d.mu.Unlock()
}

func (d *SimDisk) Delete(name string) {
	d.mu.Lock()
	delete(d.durable, name)
	d.mu.Unlock()
}

func (d *SimDisk) Names() []string {
	d.mu.Lock()
	defer d.mu.Unlock()
	out := make([]string, 0, len(d.durable))
	for n := range d.durable {
		out = append(out, n)
	}
	sort.Strings(out)
	return out
}

func (d *SimDisk) Len() int {
	d.mu.Lock()
	defer d.mu.Unlock()
	return len(d.durable)
}

// Snapshot returns a frozen copy holding the same durable contents (new prefix optional).
func (d *SimDisk) Snapshot(prefix string) *SimDisk {
	d.mu.Lock()
	defer d.mu.Unlock()
	n := NewSimDisk(prefix)
	for k, v := range d.durable {
		n.durable[k] = v
	}
	return n
}

func (d *SimDisk) LogLen() int {
	d.mu.Lock()
	defer d.mu.Unlock()
	return len(d.log)
}

func (d *SimDisk) LogHash(h *hasher) {
	d.mu.Lock()
	defer d.mu.Unlock()
	for _, e := range d.log {
		h.Str(e.Kind)
		h.Str(e.Name)
		h.Int(e.Len)
		h.Str(e.Outcome)
	}
}

// ReadOnlyView is a Persist over the same durable map that records nothing in
// the main disk's windows and injects no faults: the "fault-free view" used
// by oracles to look at what is durable.
type ReadOnlyView struct {
	d      *SimDisk
	prefix string
	mu     sync.Mutex
	Loaded map[string]int
	Missing []string
}

func (d *SimDisk) View() *ReadOnlyView {
	return &ReadOnlyView{d: d, prefix: d.prefix + "#view", Loaded: map[string]int{}}
}

func (v *ReadOnlyView) NodeURLPrefix() string { return v.prefix }
func (v *ReadOnlyView) Store(ctx context.Context, name string, b []byte) error {
	return errors.New("sim: read-only view")
}
func (v *ReadOnlyView) Load(ctx context.Context, name string) ([]byte, error) {
	b, ok := v.d.Bytes(name)
	v.mu.Lock()
	defer v.mu.Unlock()
	v.Loaded[name]++
	if !ok {
		v.Missing = append(v.Missing, name)
		return nil, fmt.Errorf("%w: %s", ErrInjNotFound, name)
	}
	return append([]byte(nil), b...), nil
}
func (v *ReadOnlyView) LoadedNames() []string {
	v.mu.Lock()
	defer v.mu.Unlock()
	out := make([]string, 0, len(v.Loaded))
	for n := range v.Loaded {
		out = append(out, n)
	}
	sort.Strings(out)
	return out
}
