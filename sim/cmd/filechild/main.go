// filechild is the process whose storage syscalls the C17/C18 file-store checks cut, fail or kill.
// It runs exactly one step through the real persist/file package (built from /repo's working tree):
//
//	filechild store  <dir> <name> <payload-file> [fsize]   -> prints "STORE ok" or "STORE error: ..."
//	filechild verify <dir> <name> <payload-file>           -> load, store, load; prints LOAD1/STORE2/LOAD2 lines
//	filechild load   <dir> <name>                          -> prints "LOAD ok <hex>" or "LOAD error: ..."
//	filechild storeload <dir> <name> <payload-file>        -> store then load; prints STOREB / LOADB lines
//
// Results go to stdout (a pipe). The main goroutine is locked to the main OS thread so that
// strace's per-thread "when=" counters address the storage syscalls deterministically.
package main

import (
	"bytes"
	"context"
	"encoding/hex"
	"fmt"
	"os"
	"runtime"
	"strconv"
	"syscall"

	"github.com/jrhy/mast/persist/file"
)

func init() { runtime.LockOSThread() }

func main() {
	if len(os.Args) < 4 {
		fmt.Println("usage")
		os.Exit(2)
	}
	ctx := context.Background()
	cmd, dir, name := os.Args[1], os.Args[2], os.Args[3]
	p := file.NewPersistForPath(dir)
	switch cmd {
	case "store":
		payload, err := os.ReadFile(os.Args[4])
		if err != nil {
			fmt.Println("HARNESS error:", err)
			os.Exit(2)
		}
		if len(os.Args) > 5 {
			n, _ := strconv.Atoi(os.Args[5])
			lim := syscall.Rlimit{Cur: uint64(n), Max: uint64(n)}
			if err := syscall.Setrlimit(syscall.RLIMIT_FSIZE, &lim); err != nil {
				fmt.Println("HARNESS error: setrlimit:", err)
				os.Exit(2)
			}
		}
		err = p.Store(ctx, name, payload)
		if err != nil {
			fmt.Println("STORE error:", err)
		} else {
			fmt.Println("STORE ok")
		}
	case "load":
		b, err := p.Load(ctx, name)
		if err != nil {
			fmt.Println("LOAD error:", err)
		} else {
			fmt.Println("LOAD ok", hex.EncodeToString(b))
		}
	case "storecancelled":
		// Store with a context that is already cancelled: it may refuse, but if it reports success
		// the node must be complete
		payload, err := os.ReadFile(os.Args[4])
		if err != nil {
			fmt.Println("HARNESS error:", err)
			os.Exit(2)
		}
		cctx, cancel := context.WithCancel(ctx)
		cancel()
		err = p.Store(cctx, name, payload)
		if err != nil {
			fmt.Println("STORE error:", err)
		} else {
			fmt.Println("STORE ok")
		}
	case "twowriters":
		// two goroutines of one process store the same node at the same time; each reads it back
		// as soon as its own Store has returned
		payload, err := os.ReadFile(os.Args[4])
		if err != nil {
			fmt.Println("HARNESS error:", err)
			os.Exit(2)
		}
		start := make(chan struct{})
		res := make(chan string, 2)
		for w := 0; w < 2; w++ {
			go func(w int) {
				<-start
				err := p.Store(ctx, name, payload)
				if err != nil {
					res <- fmt.Sprintf("W%d store-error %v", w, err)
					return
				}
				b, err := p.Load(ctx, name)
				switch {
				case err != nil:
					res <- fmt.Sprintf("W%d STOREOK-LOADERR %v", w, err)
				case bytes.Equal(b, payload):
					res <- fmt.Sprintf("W%d complete", w)
				default:
					res <- fmt.Sprintf("W%d STOREOK-WRONG %d of %d", w, len(b), len(payload))
				}
			}(w)
		}
		close(start)
		fmt.Println("TW", <-res)
		fmt.Println("TW", <-res)
		fmt.Println("STORE ok")
	case "storeretryload":
		// the same process stores the node, (possibly fails,) stores it again, and reads it back
		payload, err := os.ReadFile(os.Args[4])
		if err != nil {
			fmt.Println("HARNESS error:", err)
			os.Exit(2)
		}
		err = p.Store(ctx, name, payload)
		if err != nil {
			fmt.Println("STORE error:", err)
		} else {
			fmt.Println("STORE ok")
		}
		err = p.Store(ctx, name, payload)
		if err != nil {
			fmt.Println("STOREB error:", err)
		} else {
			fmt.Println("STOREB ok")
		}
		b, err := p.Load(ctx, name)
		switch {
		case err != nil:
			fmt.Println("LOADB error:", err)
		case bytes.Equal(b, payload):
			fmt.Println("LOADB complete", len(b))
		default:
			fmt.Println("LOADB WRONG", len(b), "of", len(payload))
		}
	case "storeload":
		// a second writer of the same node, followed by its own read-back
		payload, err := os.ReadFile(os.Args[4])
		if err != nil {
			fmt.Println("HARNESS error:", err)
			os.Exit(2)
		}
		err = p.Store(ctx, name, payload)
		if err != nil {
			fmt.Println("STOREB error:", err)
		} else {
			fmt.Println("STOREB ok")
		}
		b, err := p.Load(ctx, name)
		switch {
		case err != nil:
			fmt.Println("LOADB error:", err)
		case bytes.Equal(b, payload):
			fmt.Println("LOADB complete", len(b))
		default:
			fmt.Println("LOADB WRONG", len(b), "of", len(payload))
		}
	case "verify":
		payload, err := os.ReadFile(os.Args[4])
		if err != nil {
			fmt.Println("HARNESS error:", err)
			os.Exit(2)
		}
		report := func(tag string, b []byte, err error) {
			switch {
			case err != nil:
				fmt.Println(tag, "error:", err)
			case bytes.Equal(b, payload):
				fmt.Println(tag, "complete", len(b))
			default:
				fmt.Println(tag, "WRONG", len(b), "of", len(payload))
			}
		}
		b, err := p.Load(ctx, name)
		report("LOAD1", b, err)
		err = p.Store(ctx, name, payload)
		if err != nil {
			fmt.Println("STORE2 error:", err)
		} else {
			fmt.Println("STORE2 ok")
		}
		b, err = p.Load(ctx, name)
		report("LOAD2", b, err)
	}
}
