package sim

import "sort"

// Up-front generation of explicit scenarios from one seed. The generator keeps
// its own light bookkeeping (which keys each tree holds, which versions exist)
// only to choose sensible arguments; the World's model is authoritative for
// every oracle, and an op whose referents do not exist at run time is skipped.

type genTree struct {
	model   map[int]int
	base    map[int]int
	hasRoot bool
	baseVer int
	disk    int
	dirty   bool
}

type genVer struct {
	kind  string
	snap  map[int]int
	disk  int
	maybeDead bool
}

type genState struct {
	kd    *KeyDialect
	g     *Gen
	cfg   *Config
	trees []*genTree
	vers  []*genVer
	ops   []Op
}

// layerOf: the generator may look at key layers (independent rule) to aim probes
// at interior keys; the dialect is built lazily.
func (s *genState) layerOf(k int) int {
	if s.kd == nil {
		s.kd = NewKeyDialect(s.cfg.KeyD, s.cfg.U, s.cfg.Layers)
	}
	return IndepLayerM(s.kd.Key(k), s.cfg.BF, s.cfg.MarshalFn())
}

func cpMap(m map[int]int) map[int]int {
	o := make(map[int]int, len(m))
	for k, v := range m {
		o[k] = v
	}
	return o
}

func (s *genState) presentKey(t *genTree) (int, bool) {
	if len(t.model) == 0 {
		return 0, false
	}
	ks := make([]int, 0, len(t.model))
	for k := range t.model {
		ks = append(ks, k)
	}
	sort.Ints(ks)
	return ks[s.g.Intn(len(ks))], true
}

func (s *genState) anyKey(t *genTree, presentBias int) int {
	if s.g.Intn(100) < presentBias {
		if k, ok := s.presentKey(t); ok {
			return k
		}
	}
	return s.g.Intn(s.cfg.U)
}

func (s *genState) place(slot int, t *genTree) {
	if len(s.trees) < maxTrees {
		s.trees = append(s.trees, t)
		return
	}
	if slot < 0 || slot >= len(s.trees) {
		slot = len(s.trees) - 1
	}
	s.trees[slot] = t
}

func (s *genState) versOfKind(kind string, disk int) []int {
	var out []int
	for i, v := range s.vers {
		if v.kind == kind && (disk < 0 || v.disk == disk) {
			out = append(out, i)
		}
	}
	return out
}

// profile: base weights per op kind for each property.
var opKinds = []string{"ins", "del", "get", "size", "iter", "seek", "cur", "clone", "cursor", "fork", "persist", "reload", "restart", "diff", "difflinks", "probe", "newtree", "canon", "bulk", "rootcheck", "rebf"}

var profiles = map[string]map[string]int{
	"C01": {"ins": 30, "del": 18, "get": 10, "size": 2, "iter": 5, "seek": 0, "cur": 0, "clone": 3, "fork": 3, "persist": 6, "reload": 4, "restart": 2, "diff": 1, "newtree": 1, "cursor": 1},
	"C02": {"ins": 30, "del": 14, "get": 2, "clone": 8, "cursor": 4, "fork": 8, "persist": 8, "reload": 8, "restart": 1, "newtree": 1},
	"C03": {"ins": 30, "del": 8, "persist": 14, "reload": 2, "fork": 2, "restart": 1, "bulk": 3, "newtree": 2},
	"C04": {"ins": 30, "del": 20, "persist": 8, "canon": 8, "reload": 3, "fork": 1, "restart": 1, "rebf": 2},
	"C05": {"ins": 30, "del": 12, "persist": 10, "reload": 10, "restart": 3, "get": 3, "iter": 2, "fork": 1, "newtree": 2},
	"C06": {"ins": 30, "del": 14, "clone": 6, "fork": 4, "persist": 5, "reload": 3, "diff": 16, "newtree": 3, "restart": 1},
	"C07": {"ins": 30, "del": 14, "persist": 10, "reload": 4, "fork": 3, "difflinks": 14, "newtree": 2, "restart": 1},
	"C08": {"ins": 30, "del": 14, "persist": 12, "reload": 5, "fork": 3, "restart": 1, "clone": 1, "canon": 2},
	"C09": {"ins": 30, "del": 22, "persist": 12, "reload": 3, "fork": 2, "restart": 1, "rebf": 3},
	"C10": {"ins": 30, "del": 12, "cur": 22, "seek": 12, "persist": 4, "reload": 3, "restart": 1, "fork": 1},
	"C13": {"ins": 24, "del": 14, "persist": 14, "reload": 5, "fork": 2, "restart": 2, "newtree": 1, "bulk": 2, "seek": 3, "iter": 2, "get": 2, "cur": 2, "clone": 1},
	"C14": {"ins": 30, "del": 10, "persist": 10, "reload": 3, "rebf": 3},
	"C15": {"ins": 20, "del": 8, "persist": 10, "fork": 3, "difflinks": 12, "bulk": 6, "newtree": 2, "reload": 2},
	"C16": {"ins": 20, "del": 8, "persist": 8, "probe": 24, "bulk": 6, "reload": 1},
}

// GenConfig draws the swarm configuration for a run.
func GenConfig(prop string, g *Gen, tier string) Config {
	var c Config
	c.BF = []uint{2, 2, 3, 3, 4, 4, 5, 16}[g.Intn(8)]
	c.Format = []string{FmtBinary, FmtMarshaler}[g.Intn(2)]
	c.Marshaler = "json"
	c.KeyD = allKeyDialects[g.Intn(len(allKeyDialects))]
	if c.KeyD == "namedint" && g.Intn(2) == 0 {
		c.KeyD = "int64" // the named integer type at half the share of the others
	}
	if c.KeyD == "lstruct" && g.Intn(2) == 0 {
		c.KeyD = "struct" // keep the uncomparable struct key at half the share of the others
	}
	c.ValD = []string{"int", "int", "string", "struct", "bytes", "lval", "nil", "ptr", "int", "bigstr"}[g.Intn(10)]
	c.Disks = 1
	c.U = []int{8, 12, 20, 40, 80, 200}[g.Intn(6)]
	switch g.Intn(8) {
	case 0, 1:
		c.Cache = "none"
	case 2, 3:
		c.Cache = "arc-big"
	case 4, 5:
		c.Cache = []string{"arc-tiny:1", "arc-tiny:2", "arc-tiny:3", "arc-tiny:4"}[g.Intn(4)]
	default:
		c.Cache = "chaos"
	}
	if c.ValD == "nil" {
		c.Format = FmtBinary
	}
	if (prop == "C08" || prop == "C05" || prop == "C01") && g.Intn(20) == 0 {
		c.ValD = "inf" // includes values the JSON marshaler rejects: persisting them must fail, not lose them
	}
	if (prop == "C05" || prop == "C01" || prop == "C08") && g.Intn(40) == 0 {
		c.ValD = "hugestr" // a few entries of 64 KiB and 1 MiB: no size of entry is special
		c.U = []int{8, 12, 20}[g.Intn(3)]
	}
	if (prop == "C05" || prop == "C01") && g.Intn(30) == 0 && c.ValD != "nil" {
		// only one of the two encoding callbacks is configured; with only Unmarshal set (a JSON
		// decoder that keeps numbers exact) the values hold a number in an interface field, which
		// reads back exactly only if that decoder is really the one used
		c.CbOnly = []string{"unmarshal", "marshal"}[g.Intn(2)]
		if c.CbOnly == "unmarshal" {
			c.ValD = "numiface"
		}
	}
	// occasional custom marshaler (gob): only the configurations that the library's
	// own decode paths support (compact format, example types given)
	if g.Intn(12) == 0 && c.ValD != "nil" && c.CbOnly == "" {
		c.Marshaler = "gob"
		c.Format = FmtBinary
		c.KeyD = []string{"int", "string", "uint64", "int64"}[g.Intn(4)]
		c.ValD = []string{"int", "string"}[g.Intn(2)]
	}
	if g.Intn(12) == 0 && c.Marshaler == "json" && c.ValD != "nil" && c.ValD != "inf" && c.CbOnly == "" {
		// another custom marshaler, usable with every key and value type (compact format only)
		c.Marshaler = "xjson"
		c.Format = FmtBinary
	}
	if c.KeyD == "userkey" {
		c.Layers = genLayers(g, c.U)
	}
	if g.Intn(6) == 0 {
		// a configured KeyCompare that returns any negative/positive number, not just -1/+1
		c.CmpScale = []int{2, 7, 1000, -1, -3}[g.Intn(5)] // negative: a descending order
	}
	if g.Intn(50) == 0 && (prop == "C01" || prop == "C06" || prop == "C10" || prop == "C05" || prop == "C09" || prop == "C08" || prop == "C07") {
		// one giant node: every key on layer 0 (user Key), hundreds of entries in a single node
		c.KeyD = "userkey"
		c.U = 700
		c.Layers = make([]uint8, c.U)
		if g.Intn(2) == 0 {
			// or: a giant *interior* node, most keys one layer up, leaves hanging between them
			for i := range c.Layers {
				if g.Intn(7) != 0 {
					c.Layers[i] = 1
				}
			}
		}
		c.ValD = "int"
		c.Extra = "giant"
	}
	if g.Intn(14) == 0 && prop != "C14" && prop != "C19" && c.Extra != "giant" {
		// registered types without example types: v1marshaler + JSON round-trips strings
		c.NoLike = true
		c.Marshaler = "json"
		c.Format = FmtMarshaler
		c.KeyD = "string"
		c.ValD = "string"
		c.Layers = nil
	}
	switch prop {
	case "C01", "C10", "C06":
		if g.Intn(16) == 0 {
			c.InMemory = true
			c.CmpScale = 0 // NewInMemory takes no configuration
			c.BF = 16
			c.Cache = "none"
		}
	case "C03":
		if g.Intn(3) == 0 {
			c.Disks = 2
			if c.Cache == "none" {
				c.Cache = "arc-big"
			}
			c.Prefixes = []string{"", "port", "slash"}[g.Intn(3)]
		}
		c.BF = []uint{2, 2, 3, 4}[g.Intn(4)]
		if g.Intn(10) == 0 {
			c.U = 400 // flushes of well over 40 nodes
		}
	case "C04", "C09":
		// adversarial layer assignments matter most here
		if g.Intn(3) == 0 {
			c.KeyD = "userkey"
			c.Layers = genLayers(g, c.U)
		} else if g.Intn(6) == 0 && c.Marshaler == "json" && !c.NoLike {
			// keys whose layer is computed from their marshaled form; some inserts run with one
			// of those Marshal calls failing
			c.KeyD = []string{"struct", "lstruct"}[g.Intn(2)]
			c.Layers = nil
			c.CbFaults = true
			c.CmpScale = 0
		}
	case "C05":
		if g.Intn(4) == 0 {
			// two stores sharing one cache: the same contents persisted to both must load from each
			c.Disks = 2
			if c.Cache == "none" {
				c.Cache = "arc-big"
			}
		}
		if g.Intn(40) == 0 {
			// the documented "registered types" configuration with the default compact format
			// (as in the repository's TestCustomMarshal): a known finding, kept at a low rate
			c.NoLike = true
			c.Format = FmtBinary
			c.Marshaler = []string{"gob", "json"}[g.Intn(2)]
			c.KeyD = "string"
			c.ValD = "string"
			c.CmpScale = 0
		} else if g.Intn(10) == 0 {
			// registered types without example types: v1marshaler + JSON round-trips strings
			c.NoLike = true
			c.Marshaler = "json"
			c.Format = FmtMarshaler
			c.KeyD = "string"
			c.ValD = "string"
		}
	case "C12":
		// loads must really happen: no cache, a 1-2 entry cache, or the evicting chaos cache
		c.Cache = []string{"none", "none", "none", "arc-tiny:1", "arc-tiny:2", "chaos"}[g.Intn(6)]
		c.BF = []uint{2, 2, 3, 4, 4, 5, 8}[g.Intn(7)]
		c.U = []int{12, 20, 40, 80, 200}[g.Intn(5)]
		if c.KeyD == "userkey" {
			c.Layers = genLayers(g, c.U)
		}
	case "C15", "C16", "C13":
		if prop == "C13" && g.Intn(5) == 0 {
			c.Mirror = "file"
		}
		// big-tree profiles use cheap dialects
		bigOdds := 10
		if tier == "thorough" {
			bigOdds = 4
		}
		if g.Intn(bigOdds) == 0 {
			c.KeyD = []string{"int", "uint", "string", "uint64"}[g.Intn(4)]
			c.ValD = "int"
			c.U = []int{2000, 5000}[g.Intn(2)]
			if tier == "thorough" && g.Intn(4) == 0 {
				c.U = 40000
			}
			c.BF = []uint{4, 16, 3, 2}[g.Intn(4)]
			c.CheckEvery = 1 << 30
		}
	}
	if (prop == "C05" || prop == "C04" || prop == "C19" || prop == "C09") && g.Intn(25) == 0 && !c.NoLike && c.Extra == "" && c.CbOnly == "" && !c.CbFaults {
		// a tree filled to exactly bf^k + 1 entries (one above a height threshold), at branch
		// factors other than the usual ones
		c.BF = []uint{6, 7, 10, 14, 10, 3, 5}[g.Intn(7)]
		c.U = 3200
		c.KeyD = []string{"int", "uint64", "int64", "uint", "string"}[g.Intn(5)]
		c.ValD = "int"
		c.Layers = nil
		c.Extra = "threshold"
		c.CheckEvery = 1 << 30
		c.InMemory = false
	}
	if (prop == "C05" || prop == "C01") && g.Intn(40) == 0 && !c.NoLike && c.ValD != "nil" && c.CbOnly == "" && c.Marshaler == "json" {
		c.OneSided = []string{"keys", "vals"}[g.Intn(2)]
	}
	if c.NoLike {
		// registered-types unmarshalling round-trips only JSON-native types: strings it is, whatever
		// the property-specific overrides above chose
		c.KeyD, c.ValD, c.Layers = "string", "string", nil
		c.Marshaler = "json"
		if c.Format != FmtBinary {
			c.Format = FmtMarshaler
		}
	}
	if c.Marshaler == "xjson" && (c.ValD == "nil" || c.ValD == "inf" || c.NoLike) {
		c.Marshaler = "json"
	}
	return c
}

func genLayers(g *Gen, U int) []uint8 {
	ls := make([]uint8, U)
	switch g.Intn(7) {
	case 6: // the smallest and the greatest keys are the high ones, the levels below them are empty
		top := uint8(2 + g.Intn(3))
		for i := range ls {
			if g.Intn(8) == 0 {
				ls[i] = 1
			}
		}
		for _, i := range []int{0, 1, 2, U - 3, U - 2, U - 1} {
			if i >= 0 && i < U && g.Intn(2) == 0 {
				ls[i] = top
			}
		}
		if g.Intn(2) == 0 {
			for i := range ls {
				if ls[i] == 1 {
					ls[i] = 0
				}
			}
		}
	case 0: // all zero
	case 1: // everything high
		for i := range ls {
			ls[i] = 3
		}
	case 2: // geometric
		for i := range ls {
			for ls[i] < 5 && g.Intn(3) == 0 {
				ls[i]++
			}
		}
	case 3: // empty middle layers: only 0 and 2 (or 3)
		top := uint8(2 + g.Intn(2))
		for i := range ls {
			if g.Intn(4) == 0 {
				ls[i] = top
			}
		}
	case 4: // one very high key, rest low
		for i := range ls {
			ls[i] = uint8(g.Intn(2))
		}
		ls[g.Intn(U)] = uint8(3 + g.Intn(3))
	default: // increasing with index
		for i := range ls {
			ls[i] = uint8((i * 4) / U)
		}
	}
	return ls
}

// GenScenario generates one scenario for a property from a run seed.
func GenScenario(prop string, seed uint64, tier string) *Scenario {
	g := NewGen(seed)
	cfg := GenConfig(prop, g, tier)
	sc := &Scenario{Property: prop, Engine: "history", Seed: seed, Cfg: cfg}
	s := &genState{g: g, cfg: &sc.Cfg}
	s.trees = []*genTree{{model: map[int]int{}, base: map[int]int{}, baseVer: -1}}
	// swarm op mix
	base := profiles[prop]
	if base == nil {
		base = profiles["C01"]
	}
	ws := make([]int, len(opKinds))
	for i, k := range opKinds {
		f := []int{0, 1, 2, 2, 4, 8}[g.Intn(6)]
		if k == "ins" && f == 0 {
			f = 2
		}
		ws[i] = base[k] * f
	}
	nOps := g.Range(8, 70)
	if cfg.Extra == "giant" {
		s.emitBulk(0, g.Range(300, 500))
		nOps = g.Range(6, 24)
	}
	if cfg.Extra == "threshold" {
		n := 1
		var sizes []int
		for n*int(cfg.BF) <= 3000 {
			n *= int(cfg.BF)
			sizes = append(sizes, n+1)
		}
		target := sizes[len(sizes)-1-g.Intn(min(2, len(sizes)))]
		s.emitFill(0, target)
		s.emitPersist(0, prop)
		s.emit("reload", prop)
		nOps = g.Range(4, 14)
	} else if cfg.U >= 2000 {
		// big-tree run: start with a bulk load
		s.emitBulk(0, g.Range(cfg.U/4, cfg.U*3/4))
		s.emitPersist(0, prop)
		nOps = g.Range(10, 40)
	}
	for len(s.ops) < nOps {
		motifOdds := 25
		if prop == "C12" {
			motifOdds = 10 // the structurally interesting situations are where multi-step operations can fail half-way
		}
		if g.Intn(motifOdds) == 0 {
			s.emitMotif(prop)
			continue
		}
		k := opKinds[g.Pick(ws)]
		s.emit(k, prop)
	}
	// closing ops that make sure the property's own oracle fires at least once
	switch prop {
	case "C03", "C04", "C05", "C08", "C09", "C13", "C14":
		s.emitPersist(g.Intn(len(s.trees)), prop)
		if prop == "C04" {
			s.emit("canon", prop)
		}
		if prop == "C05" {
			s.emit("reload", prop)
		}
	case "C07", "C15":
		s.emitPersist(g.Intn(len(s.trees)), prop)
		s.emit("difflinks", prop)
	case "C16":
		s.emitPersist(g.Intn(len(s.trees)), prop)
		s.emit("probe", prop)
		s.emit("probe", prop)
	case "C19":
		s.emitPersist(g.Intn(len(s.trees)), prop)
		s.emit("rootcheck", prop)
	}
	sc.Ops = s.ops
	return sc
}

// emitMotif emits a short op pattern that sets up a structurally interesting situation which
// independent random ops reach only rarely (each op is an ordinary op; nothing is special-cased
// at run time).
func (s *genState) emitMotif(prop string) {
	g := s.g
	if s.cfg.InMemory {
		return
	}
	ti := g.Intn(len(s.trees))
	nMotifs := 5
	if prop == "C03" {
		nMotifs = 8
		if s.cfg.Disks >= 2 && g.Intn(3) == 0 {
			// an interrupted replication of a persisted version, rebuilt on the other store
			s.emitPersist(ti, "")
			vi := len(s.vers) - 1
			if vi < 0 || s.vers[vi].kind != "root" || s.vers[vi].maybeDead || len(s.vers[vi].snap) == 0 {
				return
			}
			v := s.vers[vi]
			op := Op{K: "replica", T: g.Intn(maxTrees), A: refVerBase + vi}
			s.ops = append(s.ops, op)
			s.place(op.T, &genTree{model: cpMap(v.snap), base: cpMap(v.snap), hasRoot: true, baseVer: -1, disk: (v.disk + 1) % s.cfg.Disks})
			s.vers = append(s.vers, &genVer{kind: "root", snap: cpMap(v.snap), disk: (v.disk + 1) % s.cfg.Disks, maybeDead: true})
			return
		}
	}
	if (prop == "C12" || prop == "C10") && g.Intn(4) == 0 {
		// a tall persisted tree, read back through whatever cache there is, and a cursor that
		// starts exactly on a key held by an interior node
		s.emitBulk(ti, g.Range(60, 260))
		s.emitPersist(ti, prop)
		t := s.trees[ti]
		var inner []int
		for kk := range t.model {
			if s.layerOf(kk) >= 1 {
				inner = append(inner, kk)
			}
		}
		if len(inner) == 0 {
			return
		}
		sort.Ints(inner)
		for i := 0; i < 2; i++ {
			op := Op{K: "cur", T: ti, F: "ceil", Key: inner[g.Intn(len(inner))]}
			dir := 1
			if g.Intn(3) == 0 {
				dir = -1
			}
			for j, n := 0, 1+g.Intn(6); j < n; j++ {
				op.S = append(op.S, dir)
			}
			s.ops = append(s.ops, op)
		}
		return
	}
	if prop == "C13" && g.Intn(3) == 0 {
		// a persisted tree; the value of its top-layer key is rewritten (the top node becomes
		// private), something below is looked up, then the top-layer key is deleted: whatever
		// the root is afterwards, the tree is not clean
		s.emitPersist(ti, prop)
		t := s.trees[ti]
		if len(t.model) < 2 {
			return
		}
		best, bk := -1, 0
		for kk := range t.model {
			if l := s.layerOf(kk); l > best || (l == best && kk < bk) {
				best, bk = l, kk
			}
		}
		if g.Intn(3) != 0 {
			s.ops = append(s.ops, Op{K: "ins", T: ti, Key: bk, Val: 6})
			t.model[bk] = 6
		}
		for i, n := 0, g.Intn(3); i < n; i++ {
			s.ops = append(s.ops, Op{K: "get", T: ti, Key: s.anyKey(t, 90)})
		}
		s.ops = append(s.ops, Op{K: "del", T: ti, Key: bk, Val: t.model[bk]})
		delete(t.model, bk)
		t.dirty = true
		return
	}
	if prop == "C12" && g.Intn(3) == 0 {
		// a persisted tree, a few unsaved edits (so that some children of the upper nodes are
		// private in-memory copies while their neighbours are still only in the store), then the
		// delete of a key held by an upper node: its two children are merged level by level
		variant := g.Intn(3)
		if variant == 0 {
			s.emitBulk(ti, g.Range(30, 160))
		}
		if variant == 2 {
			// bring the tree to exactly one entry above a shrink threshold (bf^h + 1), keeping
			// its upper keys: the delete below then has to shrink, after the merge
			t := s.trees[ti]
			target := int(s.cfg.BF) + 1
			if len(t.model) > int(s.cfg.BF)*int(s.cfg.BF)+1 && g.Intn(2) == 0 {
				target = int(s.cfg.BF)*int(s.cfg.BF) + 1
			}
			var low []int
			for kk := range t.model {
				if s.layerOf(kk) == 0 {
					low = append(low, kk)
				}
			}
			sort.Ints(low)
			for len(t.model) > target && len(low) > 0 {
				j := g.Intn(len(low))
				k := low[j]
				low = append(low[:j], low[j+1:]...)
				s.ops = append(s.ops, Op{K: "del", T: ti, Key: k, Val: t.model[k]})
				delete(t.model, k)
			}
			if len(t.model) != target {
				return
			}
		}
		s.emitPersist(ti, prop)
		if g.Intn(3) == 0 && !s.trees[ti].dirty {
			// carry on with a clone of the just-persisted (unmodified) version instead
			fop := Op{K: "fork", T: ti, N: g.Intn(maxTrees), A: -1}
			src := s.trees[ti]
			full := len(s.trees) >= maxTrees
			s.ops = append(s.ops, fop)
			s.place(fop.N, &genTree{model: cpMap(src.model), base: src.base, hasRoot: src.hasRoot, baseVer: src.baseVer, disk: src.disk})
			slot := len(s.trees) - 1
			if full {
				slot = fop.N
				if slot < 0 || slot >= len(s.trees) {
					slot = len(s.trees) - 1
				}
			}
			ti = slot
		}
		t := s.trees[ti]
		if len(t.model) < 4 {
			return
		}
		var touched []int
		for i, n := 0, 1+g.Intn(3); i < n; i++ {
			k := s.anyKey(t, 40)
			if variant == 2 {
				// value updates only: the size stays on the threshold
				var present []int
				for kk := range t.model {
					present = append(present, kk)
				}
				sort.Ints(present)
				k = present[g.Intn(len(present))]
			}
			s.ops = append(s.ops, Op{K: "ins", T: ti, Key: k, Val: 5})
			t.model[k] = 5
			touched = append(touched, k)
		}
		var upper []int
		best := 0
		for kk := range t.model {
			if l := s.layerOf(kk); l > best {
				best = l
			}
		}
		for kk := range t.model {
			if l := s.layerOf(kk); l >= 1 && l >= best-1 {
				upper = append(upper, kk)
			}
		}
		if len(upper) == 0 {
			return
		}
		sort.Ints(upper)
		k := upper[g.Intn(len(upper))]
		if len(touched) > 0 && g.Intn(2) == 0 {
			// or: one of the entries just edited (its path is private in memory, its siblings are not)
			k = touched[g.Intn(len(touched))]
		}
		s.ops = append(s.ops, Op{K: "del", T: ti, Key: k, Val: t.model[k]})
		delete(t.model, k)
		t.dirty = true
		return
	}
	switch g.Intn(nMotifs) {
	case 5, 6:
		// a tree and its clone receive the same inserts (byte-identical new nodes) and are
		// persisted at the same time
		if g.Intn(2) == 0 {
			s.emitPersist(ti, "")
		}
		t := s.trees[ti]
		fop := Op{K: "fork", T: ti, N: g.Intn(maxTrees), A: -1}
		nt := &genTree{model: cpMap(t.model), base: t.base, hasRoot: t.hasRoot, baseVer: t.baseVer, disk: t.disk, dirty: t.dirty}
		full := len(s.trees) >= maxTrees
		s.ops = append(s.ops, fop)
		s.place(fop.N, nt)
		slot := len(s.trees) - 1
		if full {
			slot = fop.N
			if slot < 0 || slot >= len(s.trees) {
				slot = len(s.trees) - 1
			}
		}
		if slot == ti {
			return
		}
		for i, n := 0, 1+g.Intn(4); i < n; i++ {
			k := s.anyKey(t, 25)
			v := g.Intn(50)
			for _, sl := range []int{ti, slot} {
				s.ops = append(s.ops, Op{K: "ins", T: sl, Key: k, Val: v})
				s.trees[sl].model[k] = v
				s.trees[sl].dirty = true
			}
		}
		if g.Intn(3) == 0 {
			// one side diverges a little
			k := s.anyKey(t, 25)
			s.ops = append(s.ops, Op{K: "ins", T: slot, Key: k, Val: 7})
			s.trees[slot].model[k] = 7
		}
		cop := Op{K: "copersist", T: ti, N: slot}
		if g.Intn(3) == 0 {
			cop.F, cop.B = "faults", []int{30, 100, 300}[g.Intn(3)]
		}
		s.ops = append(s.ops, cop)
		s.vers = append(s.vers, &genVer{kind: "root", snap: cpMap(s.trees[ti].model), disk: t.disk, maybeDead: true},
			&genVer{kind: "root", snap: cpMap(s.trees[slot].model), disk: t.disk, maybeDead: true})
	case 7:
		// a flush of many nodes whose caller gives up midway
		s.emitBulk(ti, g.Range(120, 400))
		op := Op{K: "persist", T: ti, F: "cancel", N: []int{0, 1, 3, 10, 39, 45, 80}[g.Intn(7)]}
		s.ops = append(s.ops, op)
		s.vers = append(s.vers, &genVer{kind: "root", snap: cpMap(s.trees[ti].model), disk: s.trees[ti].disk, maybeDead: true})
	case 4:
		// two trees loaded from one just-committed version both delete the same interior key
		// (merging the same two children), then one of them keeps editing
		s.emitPersist(ti, prop)
		t := s.trees[ti]
		if len(t.model) < 3 || len(s.vers) == 0 {
			return
		}
		vi := len(s.vers) - 1
		if s.vers[vi].kind != "root" || s.vers[vi].maybeDead {
			return
		}
		best, bk := -1, 0
		for kk := range t.model {
			if l := s.layerOf(kk); l > best || (l == best && kk < bk) {
				best, bk = l, kk
			}
		}
		var slots []int
		for r := 0; r < 2; r++ {
			op := Op{K: "reload", T: g.Intn(maxTrees), A: refVerBase + vi}
			s.ops = append(s.ops, op)
			v := s.vers[vi]
			before := len(s.trees)
			s.place(op.T, &genTree{model: cpMap(v.snap), base: cpMap(v.snap), hasRoot: true, baseVer: vi, disk: v.disk})
			slot := op.T
			if before < maxTrees {
				slot = before
			} else if slot < 0 || slot >= len(s.trees) {
				slot = len(s.trees) - 1
			}
			slots = append(slots, slot)
		}
		for _, sl := range slots {
			tt := s.trees[sl]
			if v, ok := tt.model[bk]; ok {
				s.ops = append(s.ops, Op{K: "del", T: sl, Key: bk, Val: v})
				delete(tt.model, bk)
				tt.dirty = true
			}
		}
		for i := 0; i < 2; i++ {
			tt := s.trees[slots[0]]
			k := s.anyKey(tt, 50)
			if v, ok := tt.model[k]; ok && i == 0 {
				s.ops = append(s.ops, Op{K: "del", T: slots[0], Key: k, Val: v})
				delete(tt.model, k)
			} else {
				s.ops = append(s.ops, Op{K: "ins", T: slots[0], Key: k, Val: 9})
				tt.model[k] = 9
			}
		}
	case 0:
		// persist; delete the top-layer key (shrink through a key-less root onto a persisted
		// child); capture a version; modify below
		s.emitPersist(ti, prop)
		t := s.trees[ti]
		if len(t.model) == 0 {
			return
		}
		best, bk := -1, 0
		for kk := range t.model {
			if l := s.layerOf(kk); l > best || (l == best && kk < bk) {
				best, bk = l, kk
			}
		}
		s.ops = append(s.ops, Op{K: "del", T: ti, Key: bk, Val: t.model[bk]})
		delete(t.model, bk)
		t.dirty = true
		s.emit([]string{"clone", "fork", "cursor", "clone"}[g.Intn(4)], prop)
		for i := 0; i < 1+g.Intn(3); i++ {
			s.emit("ins", prop)
		}
	case 1:
		// two trees loaded from one root (through the shared cache); modify one
		s.emitPersist(ti, prop)
		s.emit("reload", prop)
		s.emit("reload", prop)
		s.emit("ins", prop)
		s.emit("del", prop)
	case 2:
		// re-create persisted content: insert then delete the same key, persist again
		s.emitPersist(ti, prop)
		t := s.trees[ti]
		k := g.Intn(s.cfg.U)
		if _, ok := t.model[k]; ok {
			return
		}
		s.ops = append(s.ops, Op{K: "ins", T: ti, Key: k, Val: 3}, Op{K: "del", T: ti, Key: k, Val: 3})
		t.dirty = true
		s.emitPersist(ti, prop)
	default:
		// clone of a clone, then modify the inner clone
		s.emit("clone", prop)
		s.emit("fork", prop)
		s.emit("ins", prop)
	}
}

func (s *genState) emitFill(ti int, n int) {
	t := s.trees[ti]
	start := 0
	if s.g.Intn(2) == 0 {
		start = s.g.Intn(100)
	}
	s.ops = append(s.ops, Op{K: "fill", T: ti, N: n, Key: start})
	for k := start; k < s.cfg.U && len(t.model) < n; k++ {
		if _, ok := t.model[k]; !ok {
			t.model[k] = k % 50
		}
	}
	t.dirty = true
}

func (s *genState) emitBulk(ti int, n int) {
	t := s.trees[ti]
	seed := s.g.Intn(1 << 30)
	s.ops = append(s.ops, Op{K: "bulk", T: ti, N: n, Val: seed})
	bg := NewGen(uint64(seed))
	for i := 0; i < n; i++ {
		k := bg.Intn(s.cfg.U)
		t.model[k] = bg.Intn(1000)
	}
	t.dirty = true
}

func (s *genState) emitPersist(ti int, prop string) {
	if s.cfg.InMemory || ti >= len(s.trees) {
		return
	}
	t := s.trees[ti]
	op := Op{K: "persist", T: ti}
	v := &genVer{kind: "root", snap: cpMap(t.model), disk: t.disk}
	if prop == "C03" || ((prop == "C05" || prop == "C02") && s.g.Intn(6) == 0) {
		switch s.g.Intn(6) {
		case 0, 1:
			op.F = "faults"
			op.N = []int{10, 30, 100, 300}[s.g.Intn(4)]
			v.maybeDead = true
		case 2:
			op.F = "failat"
			op.N = 1 + s.g.Intn(12)
			op.Val = s.g.Intn(2)
			v.maybeDead = true
		case 3:
			op.F = "stall"
		case 4:
			// the caller's context is cancelled after N writes completed
			op.F = "cancel"
			op.N = []int{0, 1, 3, 10, 39, 45}[s.g.Intn(6)]
			v.maybeDead = true
		}
	}
	s.ops = append(s.ops, op)
	s.vers = append(s.vers, v)
	if !v.maybeDead {
		t.base = cpMap(t.model)
		t.hasRoot = true
		t.baseVer = len(s.vers) - 1
		t.dirty = false
	}
}

func (s *genState) emit(kind, prop string) {
	g := s.g
	ti := g.Intn(len(s.trees))
	t := s.trees[ti]
	switch kind {
	case "ins":
		k := s.anyKey(t, 25)
		v := g.Intn(50)
		if cur, ok := t.model[k]; ok && g.Intn(6) == 0 {
			v = cur // same-value insert (no-op)
		}
		iop := Op{K: "ins", T: ti, Key: k, Val: v}
		if (prop == "C09" || prop == "C04") && t.hasRoot && g.Intn(10) == 0 {
			iop.F, iop.N = "loadfault", 1+g.Intn(5)
		}
		if s.cfg.CbFaults && g.Intn(4) == 0 {
			iop.F, iop.N = "marfault", 1+g.Intn(6)
		}
		s.ops = append(s.ops, iop)
		t.model[k] = v
		t.dirty = true
		if iop.F == "marfault" && g.Intn(2) == 0 {
			s.emit("canon", prop)
		}
	case "del":
		k := s.anyKey(t, 80)
		if len(t.model) > 0 && g.Intn(6) == 0 {
			// the present key of the highest layer (the root's last key: shrink through a key-less root)
			best := -1
			for kk := range t.model {
				if l := s.layerOf(kk); l > best || (l == best && kk < k) {
					best, k = l, kk
				}
			}
		}
		cur, ok := t.model[k]
		v := cur
		if !ok {
			v = g.Intn(50)
		} else if g.Intn(8) == 0 {
			v = cur + 1 + g.Intn(3) // wrong value
		}
		dop := Op{K: "del", T: ti, Key: k, Val: v}
		if (prop == "C09" || prop == "C04") && t.hasRoot && g.Intn(8) == 0 {
			dop.F, dop.N = "loadfault", 1+g.Intn(5)
		}
		if prop == "C01" && g.Intn(12) == 0 {
			// Delete with the untyped nil as the value: matches only an entry whose value is nil
			dop.F = "nilval"
			s.ops = append(s.ops, dop)
			if ok && s.cfg.ValD == "nil" {
				delete(t.model, k)
				t.dirty = true
			}
			break
		}
		s.ops = append(s.ops, dop)
		if ok && v == cur {
			delete(t.model, k)
			t.dirty = true
		}
	case "get":
		gop := Op{K: "get", T: ti, Key: s.anyKey(t, 60)}
		if prop == "C01" && g.Intn(6) == 0 {
			gop.F = "iface" // the destination is a *interface{} rather than a pointer to the value type
		}
		s.ops = append(s.ops, gop)
	case "size":
		s.ops = append(s.ops, Op{K: "size", T: ti})
	case "iter":
		n := 0
		if g.Intn(3) == 0 {
			n = 1 + g.Intn(len(t.model)+2)
		}
		s.ops = append(s.ops, Op{K: "iter", T: ti, N: n})
	case "seek":
		n := 0
		if g.Intn(3) == 0 {
			n = 1 + g.Intn(len(t.model)+2)
		}
		s.ops = append(s.ops, Op{K: "seek", T: ti, Key: s.anyKey(t, 40), N: n})
	case "cur":
		op := Op{K: "cur", T: ti, F: []string{"min", "max", "ceil"}[g.Intn(3)], Key: s.anyKey(t, 40)}
		if op.F == "ceil" && g.Intn(2) == 0 {
			// start exactly on a present key that an interior node holds
			var inner []int
			for kk := range t.model {
				if s.layerOf(kk) >= 1 {
					inner = append(inner, kk)
				}
			}
			if len(inner) > 0 {
				sort.Ints(inner)
				op.Key = inner[g.Intn(len(inner))]
			}
		}
		nm := g.Intn(len(t.model)*2 + 4)
		dir := 1
		if op.F == "max" || (op.F == "ceil" && g.Intn(2) == 0) {
			dir = -1
		}
		for i := 0; i < nm; i++ {
			mv := dir
			if g.Intn(5) == 0 {
				mv = -dir
			}
			op.S = append(op.S, mv)
		}
		s.ops = append(s.ops, op)
	case "clone":
		s.ops = append(s.ops, Op{K: "clone", T: ti})
		s.vers = append(s.vers, &genVer{kind: "clone", snap: cpMap(t.model), disk: t.disk})
	case "cursor":
		s.ops = append(s.ops, Op{K: "cursor", T: ti})
		s.vers = append(s.vers, &genVer{kind: "cursor", snap: cpMap(t.model), disk: t.disk})
	case "fork":
		op := Op{K: "fork", T: ti, N: g.Intn(maxTrees), A: -1}
		nt := &genTree{model: cpMap(t.model), base: t.base, hasRoot: t.hasRoot, baseVer: t.baseVer, disk: t.disk, dirty: t.dirty}
		if cl := s.versOfKind("clone", -1); len(cl) > 0 && g.Intn(3) == 0 {
			vi := cl[g.Intn(len(cl))]
			op.A = refVerBase + vi
			nt = &genTree{model: cpMap(s.vers[vi].snap), base: nil, baseVer: -1, disk: s.vers[vi].disk, dirty: true}
		}
		s.ops = append(s.ops, op)
		s.place(op.N, nt)
	case "persist":
		s.emitPersist(ti, prop)
	case "reload":
		roots := s.versOfKind("root", -1)
		if len(roots) == 0 {
			return
		}
		vi := roots[g.Intn(len(roots))]
		op := Op{K: "reload", T: g.Intn(maxTrees), A: refVerBase + vi}
		if g.Intn(2) == 0 {
			op.F = "json"
		}
		s.ops = append(s.ops, op)
		if s.vers[vi].maybeDead {
			return
		}
		v := s.vers[vi]
		s.place(op.T, &genTree{model: cpMap(v.snap), base: cpMap(v.snap), hasRoot: true, baseVer: vi, disk: v.disk})
	case "restart":
		if s.cfg.InMemory {
			return
		}
		s.ops = append(s.ops, Op{K: "restart"})
		for _, t := range s.trees {
			if t.base != nil {
				t.model = cpMap(t.base)
			} else {
				t.model = map[int]int{}
			}
			t.dirty = false
		}
		for _, v := range s.vers {
			if v.kind != "root" {
				v.kind = "dead"
			}
		}
	case "newtree":
		d := g.Intn(s.cfg.Disks)
		op := Op{K: "newtree", T: g.Intn(maxTrees), N: d}
		s.ops = append(s.ops, op)
		s.place(op.T, &genTree{model: map[int]int{}, base: map[int]int{}, baseVer: -1, disk: d})
	case "diff":
		// any ordered pair among live handles: working trees, clones, roots, nil old
		var refs []int
		for i := range s.trees {
			refs = append(refs, i)
		}
		for i, v := range s.vers {
			if v.kind == "clone" || v.kind == "root" {
				refs = append(refs, refVerBase+i)
			}
		}
		b := refs[g.Intn(len(refs))]
		a := refs[g.Intn(len(refs))]
		if g.Intn(12) == 0 {
			a = refNil
		}
		op := Op{K: "diff", A: a, B: b}
		switch g.Intn(6) {
		case 0:
			op.N = 1 + g.Intn(4)
		case 1:
			op.F = "err"
			op.N = 1 + g.Intn(3)
			op.Val = g.Intn(2) // keepGoing returned together with the error
		}
		s.ops = append(s.ops, op)
	case "difflinks":
		roots := s.versOfKind("root", -1)
		if len(roots) == 0 {
			return
		}
		b := roots[g.Intn(len(roots))]
		same := s.versOfKind("root", s.vers[b].disk)
		a := refVerBase + same[g.Intn(len(same))]
		if g.Intn(10) == 0 {
			a = refNil
		}
		s.ops = append(s.ops, Op{K: "difflinks", A: a, B: refVerBase + b})
	case "probe":
		roots := s.versOfKind("root", -1)
		if len(roots) == 0 {
			return
		}
		vi := roots[g.Intn(len(roots))]
		v := s.vers[vi]
		op := Op{K: "probe", A: refVerBase + vi, F: []string{"get", "get", "ins", "ins", "del", "del", "clone"}[g.Intn(7)], Val: g.Intn(50)}
		switch g.Intn(4) {
		case 0, 1:
			if len(v.snap) > 0 {
				ks := make([]int, 0, len(v.snap))
				for k := range v.snap {
					ks = append(ks, k)
				}
				sort.Ints(ks)
				op.Key = ks[g.Intn(len(ks))]
				if g.Intn(2) == 0 {
					// bias towards interior (high-layer) keys: best of 8 samples
					best := s.layerOf(op.Key)
					for i := 0; i < 8; i++ {
						k := ks[g.Intn(len(ks))]
						if l := s.layerOf(k); l > best {
							best, op.Key = l, k
						}
					}
				}
			} else {
				op.Key = g.Intn(s.cfg.U)
			}
		case 2:
			// absent or present key of a high layer
			op.Key = g.Intn(s.cfg.U)
			best := s.layerOf(op.Key)
			for i := 0; i < 8; i++ {
				k := g.Intn(s.cfg.U)
				if l := s.layerOf(k); l > best {
					best, op.Key = l, k
				}
			}
		default:
			op.Key = g.Intn(s.cfg.U)
		}
		if g.Intn(6) == 0 {
			op.N = 1 + g.Intn(4) // that read of the probed call is served truncated, without an error
		}
		s.ops = append(s.ops, op)
	case "rebf":
		nb := []int{2, 3, 4, 5, 16}[g.Intn(5)]
		s.ops = append(s.ops, Op{K: "rebf", T: ti, N: nb})
	case "rootcheck":
		roots := s.versOfKind("root", -1)
		if len(roots) == 0 {
			s.emitPersist(ti, prop)
			roots = s.versOfKind("root", -1)
			if len(roots) == 0 {
				return
			}
		}
		s.ops = append(s.ops, Op{K: "rootcheck", A: refVerBase + roots[g.Intn(len(roots))]})
	case "canon":
		if !t.hasRoot || t.dirty {
			s.emitPersist(ti, prop)
		}
		s.ops = append(s.ops, Op{K: "canon", T: ti, N: g.Intn(1 << 20)})
	case "bulk":
		n := g.Range(20, 120)
		if s.cfg.U < 400 {
			n = g.Range(5, s.cfg.U/2+5)
		}
		s.emitBulk(ti, n)
	}
}
