package sim

import (
	"fmt"
	"os"
	"path/filepath"
	"sync/atomic"
	"time"
)

// Hang watchdog. A library call that never returns cannot be interrupted in-process, so a
// real-time watchdog goroutine (started outside every synctest bubble, where time is real)
// watches the wall clock of the current run. When a run exceeds the limit:
//   - in a shard: if the op being executed belongs to the property under judgement, the
//     scenario (cut after that op) is saved as a replay file with the signature
//     <prop>/operation-does-not-terminate/<op kind>; the shard report is written and the process
//     exits. Otherwise the hang is counted as unrelated.
//   - in a replay: the signature is printed as reproduced and the process exits 1.

type hangState struct {
	start   atomic.Int64 // unix nanos of the current run, 0 = idle
	world   atomic.Pointer[World]
	sc      atomic.Pointer[Scenario]
	limit   time.Duration
	onShard func(sig, detail string, sc *Scenario)
	replay  bool
}

var hang = &hangState{limit: 240 * time.Second}

func (h *hangState) begin(sc *Scenario) {
	h.sc.Store(sc)
	h.world.Store(nil)
	h.start.Store(time.Now().UnixNano())
}

func (h *hangState) end() { h.start.Store(0) }

// hangOwner maps the op kind that does not return to the property whose statement covers it.
func hangOwner(kind string) string {
	switch kind {
	case "ins", "del", "get", "size", "iter", "clone", "fork", "reload", "restart", "bulk", "newtree":
		return "C01"
	case "cur", "seek", "cursor":
		return "C10"
	case "diff":
		return "C06"
	case "difflinks":
		return "C07"
	case "persist", "canon":
		return "C03"
	case "probe":
		return "C16"
	case "rootcheck":
		return "C19"
	}
	return ""
}

func (h *hangState) watch() {
	go func() {
		for {
			time.Sleep(500 * time.Millisecond)
			st := h.start.Load()
			if st == 0 || time.Since(time.Unix(0, st)) < h.limit {
				continue
			}
			sc := h.sc.Load()
			w := h.world.Load()
			kind := ""
			opIdx := -1
			if w != nil && sc != nil && w.opIdx >= 0 && w.opIdx < len(sc.Ops) {
				opIdx = w.opIdx
				kind = sc.Ops[opIdx].K
			}
			prop := ""
			if sc != nil {
				prop = sc.Property
			}
			owner := hangOwner(kind)
			sig := fmt.Sprintf("%s/operation-does-not-terminate/%s", owner, kind)
			detail := fmt.Sprintf("op #%d (%s) has not returned after %v of real time", opIdx, kind, h.limit)
			if h.replay {
				if owner != "" && owner == prop {
					fmt.Printf("REPLAY-RESULT: reproduced signature=%s hang\n  %s\nVIOLATION property=%s replay=%s\n", sig, detail, prop, os.Getenv("VERIF_REPLAY"))
					os.Exit(1)
				}
				fmt.Printf("REPLAY-RESULT: no violation (run does not terminate in an op of another property: %s)\n", kind)
				os.Exit(2)
			}
			if h.onShard != nil {
				if owner == "" || owner != prop {
					sig = ""
				}
				var cut *Scenario
				if sc != nil {
					cut = sc.Clone()
					if opIdx >= 0 && opIdx+1 < len(cut.Ops) {
						cut.Ops = cut.Ops[:opIdx+1]
					}
				}
				h.onShard(sig, detail, cut)
			}
			os.Exit(0)
		}
	}()
}

// installShardWatchdog wires the watchdog to a shard's report.
func installShardWatchdog(env *ShardEnv, rep **ShardReport, reportPath string) {
	if env.Tier == "thorough" {
		hang.limit = 900 * time.Second // the largest thorough-tier runs on a loaded machine take a while
	}
	if v := envInt("VERIF_HANG_S", 0); v > 0 {
		hang.limit = time.Duration(v) * time.Second
	}
	hang.onShard = func(sig, detail string, sc *Scenario) {
		r := *rep
		if r == nil {
			r = newShardReport(env.Prop, "?", env.Shard, env.Tier, env.Seed)
		}
		if sig == "" {
			r.Truncated["run-does-not-terminate-in-unrelated-op"]++
		} else if k, ok := env.Known[sig]; ok {
			r.KnownHits[sig]++
			r.KnownWhat[sig] = k.Finding
		} else if sc != nil {
			sc.Signature, sc.Detail = sig, detail
			sc.Tape = nil
			os.MkdirAll(env.ReplayDir, 0o755)
			path := filepath.Join(env.ReplayDir, fmt.Sprintf("%s-s%d-%x-hang.json", env.Prop, env.Shard, sc.Seed))
			sc.Save(path)
			r.Violations = append(r.Violations, ViolationReport{Property: env.Prop, Signature: sig, Detail: detail, Replay: path, Seed: sc.Seed, OpsBefore: len(sc.Ops), OpsAfter: len(sc.Ops)})
		}
		r.Note = "shard ended early: a run did not terminate (" + detail + ")"
		writeJSON(reportPath, r)
	}
	hang.watch()
}
