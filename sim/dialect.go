package sim

import (
	"bytes"
	"encoding/json"
	"fmt"
	"math"
	"reflect"
	"sort"
	"strconv"
	"strings"

	"github.com/jrhy/mast"
)

// UKey is a user Key type whose layer is assigned by the simulator (adversarial
// shapes) and whose order is numeric.
type UKey struct {
	N int
	L uint8
}

func (k UKey) Layer(branchFactor uint) uint8 { return k.L }
func (k UKey) Order(o mast.Key) int {
	ok := o.(UKey)
	switch {
	case k.N < ok.N:
		return -1
	case k.N > ok.N:
		return 1
	}
	return 0
}

// SKey is a struct key ordered (by the library's default) by its marshaled bytes.
type SKey struct {
	A int
	B string
}

// LKey is a struct key that is not comparable with == (it holds a slice); like every struct key
// it is ordered by its marshaled bytes.
type LKey struct {
	Tenant string
	Path   []string
}

// SVal / LVal are struct values; LVal is uncomparable with == (holds a slice).
type SVal struct {
	X int
	Y string
}
type LVal struct {
	L []int
	S string
}

// NInt is a named integer key type that does not implement mast.Key: the library orders such
// keys by their marshaled form and derives their layer from it (not from the number).
type NInt int64

// NVal holds a number in an interface field: it survives a JSON round trip only through a
// decoder that keeps numbers exact (UseNumber), i.e. only if the configured Unmarshal is used.
type NVal struct {
	N interface{}
	S string
}

// KeyDialect maps abstract key indexes 0..U-1 to concrete keys of one Go type
// and carries an order on indexes written here, not taken from the library.
type KeyDialect struct {
	Name   string
	U      int
	Layers []uint8 // userkey only
	keys   []interface{}
	rank   []int // rank[i] = position of index i in ascending key order
	sorted []int // indexes in ascending key order
	inv    map[string]int
}

func keyString(k interface{}) string {
	switch v := k.(type) {
	case []byte:
		return "b:" + string(v)
	default:
		return fmt.Sprintf("%T:%v", k, k)
	}
}

func NewKeyDialect(name string, U int, layers []uint8) *KeyDialect {
	d := &KeyDialect{Name: name, U: U, Layers: layers, inv: map[string]int{}}
	d.keys = make([]interface{}, U)
	for i := 0; i < U; i++ {
		d.keys[i] = d.mk(i)
		d.inv[keyString(d.keys[i])] = i
	}
	if len(d.inv) != U {
		panic(fmt.Sprintf("key dialect %s: %d keys but %d distinct", name, U, len(d.inv)))
	}
	d.sorted = make([]int, U)
	for i := range d.sorted {
		d.sorted[i] = i
	}
	sort.SliceStable(d.sorted, func(a, b int) bool { return d.lessConcrete(d.sorted[a], d.sorted[b]) })
	d.rank = make([]int, U)
	for pos, idx := range d.sorted {
		d.rank[idx] = pos
	}
	return d
}

// Reverse turns the dialect's order around (for runs whose configured KeyCompare orders the
// keys descending): everything in the harness that needs an order takes it from rank / sorted.
func (d *KeyDialect) Reverse() {
	for i, j := 0, len(d.sorted)-1; i < j; i, j = i+1, j-1 {
		d.sorted[i], d.sorted[j] = d.sorted[j], d.sorted[i]
	}
	for pos, idx := range d.sorted {
		d.rank[idx] = pos
	}
}

// extreme integer keys (whole-range ordering, wrap-around in comparators or layer
// arithmetic) occupy the last indexes of integer universes of 12 keys or more
var extremeInts = []int64{math.MinInt64, math.MaxInt64, -6000000000000000000, 6000000000000000000, math.MinInt64 + 1, math.MaxInt64 - 1}
var extremeUints = []uint64{math.MaxUint64, 1 << 63, 1<<63 - 1, math.MaxUint64 - 1, 1 << 62, 12000000000000000000}

func init() {
	if strconv.IntSize == 32 {
		// a 32-bit host: int and uint keys cannot be wider (the int64 / uint64 dialects keep the full range)
		extremeIntsNative = []int64{math.MinInt32, math.MaxInt32, -1500000000, 1500000000, math.MinInt32 + 1, math.MaxInt32 - 1}
		extremeUintsNative = []uint64{math.MaxUint32, 1 << 31, 1<<31 - 1, math.MaxUint32 - 1, 1 << 30, 3000000000}
	}
}

var extremeIntsNative = extremeInts
var extremeUintsNative = extremeUints

func (d *KeyDialect) extreme(i int) (int, bool) {
	if d.U < 12 {
		return 0, false
	}
	if j := i - (d.U - len(extremeInts)); j >= 0 {
		return j, true
	}
	return 0, false
}

func (d *KeyDialect) mk(i int) interface{} {
	switch d.Name {
	case "int":
		if j, ok := d.extreme(i); ok {
			return int(extremeIntsNative[j])
		}
		return i - d.U/3
	case "namedint":
		return NInt(int64(i-d.U/3) * 16)
	case "int64":
		if j, ok := d.extreme(i); ok {
			return extremeInts[j]
		}
		return int64(i-d.U/3) * 3
	case "uint":
		if j, ok := d.extreme(i); ok {
			return uint(extremeUintsNative[j])
		}
		return uint(i)
	case "uint64":
		if j, ok := d.extreme(i); ok {
			return extremeUints[j]
		}
		return uint64(i) * 2
	case "string":
		if i%17 == 11 {
			// long keys (hash computed over more than one 128-byte chunk)
			return "k" + strconv.Itoa(i) + "/" + strings.Repeat("long-key-segment/", 9+i%7)
		}
		if i%9 == 4 {
			// characters the JSON encoder escapes (<, >, &) and a non-ASCII rune
			return "k" + strconv.Itoa(i) + "<&>\u00e9"
		}
		if i%13 == 6 {
			// U+2028 / U+2029: valid UTF-8 that encoding/json escapes all the same
			return "k" + strconv.Itoa(i) + "\u2028x\u2029"
		}
		return "k" + strconv.Itoa(i)
	case "bytes":
		// variable length, includes 0x00 and 0xff, prefix relationships
		b := []byte{byte(i % 7), byte(i)}
		if i%3 == 0 {
			b = append(b, 0xff, 0x00)
		}
		if i%5 == 0 {
			b = b[:1+i%2]
			b = append(b, byte(i>>1), byte(i))
		}
		return b
	case "userkey":
		var l uint8
		if i < len(d.Layers) {
			l = d.Layers[i]
		}
		return UKey{N: i, L: l}
	case "struct":
		return SKey{A: i % 7, B: "s" + strconv.Itoa(i)}
	case "lstruct":
		return LKey{Tenant: "t" + strconv.Itoa(i%3), Path: []string{"p" + strconv.Itoa(i), strconv.Itoa(i % 5)}}
	}
	panic("unknown key dialect " + d.Name)
}

func (d *KeyDialect) lessConcrete(i, j int) bool {
	a, b := d.keys[i], d.keys[j]
	switch d.Name {
	case "int":
		return a.(int) < b.(int)
	case "int64":
		return a.(int64) < b.(int64)
	case "uint":
		return a.(uint) < b.(uint)
	case "uint64":
		return a.(uint64) < b.(uint64)
	case "string":
		return a.(string) < b.(string)
	case "bytes":
		return bytes.Compare(a.([]byte), b.([]byte)) < 0
	case "userkey":
		return a.(UKey).N < b.(UKey).N
	case "struct", "lstruct", "namedint":
		ja, _ := json.Marshal(a)
		jb, _ := json.Marshal(b)
		return bytes.Compare(ja, jb) < 0
	}
	panic("unknown key dialect")
}

func (d *KeyDialect) Key(i int) interface{} {
	k := d.keys[i]
	if b, ok := k.([]byte); ok {
		return append([]byte(nil), b...)
	}
	return k
}
func (d *KeyDialect) Less(i, j int) bool { return d.rank[i] < d.rank[j] }
func (d *KeyDialect) Rank(i int) int     { return d.rank[i] }
func (d *KeyDialect) Sorted() []int      { return d.sorted }

// Index maps a concrete key returned by the library back to its index.
func (d *KeyDialect) Index(k interface{}) (int, bool) {
	if k == nil {
		return -1, false
	}
	want := reflect.TypeOf(d.keys[0])
	if reflect.TypeOf(k) != want {
		return -1, false
	}
	i, ok := d.inv[keyString(k)]
	return i, ok
}

func (d *KeyDialect) Like() interface{} {
	switch d.Name {
	case "int":
		return int(0)
	case "int64":
		return int64(0)
	case "uint":
		return uint(0)
	case "uint64":
		return uint64(0)
	case "string":
		return ""
	case "bytes":
		return []byte{}
	case "userkey":
		return UKey{}
	case "struct":
		return SKey{}
	case "lstruct":
		return LKey{}
	case "namedint":
		return NInt(0)
	}
	panic("unknown key dialect")
}

// ValDialect maps value indexes to concrete values.
type ValDialect struct{ Name string }

func (v *ValDialect) Val(i int) interface{} {
	switch v.Name {
	case "int":
		return i
	case "string":
		if i%5 == 3 {
			return "v<tag>&" + strconv.Itoa(i)
		}
		if i%11 == 5 {
			return "v" + strconv.Itoa(i) + "\u2028\u2029"
		}
		if i%7 == 2 {
			// encodings whose length sits on the 1-byte/2-byte varint boundary (127, 128, 129 bytes as JSON)
			s := "v" + strconv.Itoa(i) + "-"
			return s + strings.Repeat("x", 125+(i/7)%3-len(s))
		}
		return "v" + strconv.Itoa(i)
	case "struct":
		return SVal{X: i, Y: "y" + strconv.Itoa(i%5)}
	case "bytes":
		switch i % 10 {
		case 3:
			return []byte(nil) // a nil blob and
		case 7:
			return []byte{} // an empty one are different values ("null" and "" when marshaled)
		}
		return []byte{byte(i), 0, byte(i >> 8), 0xfe}
	case "lval":
		return LVal{L: []int{i, i + 1}, S: strconv.Itoa(i)}
	case "numiface":
		return NVal{N: json.Number(strconv.FormatInt(9007199254740993+int64(i)*2, 10)), S: strconv.Itoa(i)}
	case "inf":
		// float values; some cannot be marshaled by the default (JSON) marshaler at all
		if i%5 == 2 {
			return math.Inf(1)
		}
		return float64(i) + 0.5
	case "bigstr":
		// values of 1.2-4.8 KB: a node of a few entries exceeds typical 4 KiB buffers
		return strings.Repeat(string(rune('a'+i%26)), 1200+(i%7)*600) + "#" + strconv.Itoa(i)
	case "hugestr":
		// mostly short strings; a few value indexes are very large (past 64 KiB, past 1 MiB):
		// nothing in the library bounds the size of an entry
		switch i {
		case 3, 28:
			return strings.Repeat("k", 66000+i) + "#" + strconv.Itoa(i)
		case 7, 32:
			return strings.Repeat("M", (1<<20)+100+i) + "#" + strconv.Itoa(i)
		}
		return "h" + strconv.Itoa(i)
	case "ptr":
		// a fresh allocation per call: equal values are distinct objects; a few are typed nil pointers
		if i%10 == 4 {
			return (*SVal)(nil)
		}
		return &SVal{X: i, Y: "p" + strconv.Itoa(i%3)}
	case "nil":
		return nil
	}
	panic("unknown value dialect " + v.Name)
}

func (v *ValDialect) Like() interface{} {
	switch v.Name {
	case "int":
		return int(0)
	case "string":
		return ""
	case "struct":
		return SVal{X: 7, Y: "example"} // an example instance need not be the zero value
	case "bytes":
		return []byte{}
	case "lval":
		return LVal{L: []int{41, 42, 43}, S: "example"}
	case "numiface":
		return NVal{}
	case "ptr":
		return &SVal{}
	case "bigstr", "hugestr":
		return ""
	case "inf":
		return float64(0)
	case "nil":
		return nil
	}
	panic("unknown value dialect")
}

// Same reports whether a concrete value returned by the library equals value index i.
func (v *ValDialect) Same(got interface{}, i int) bool {
	if v.Name == "nil" {
		return got == nil
	}
	return reflect.DeepEqual(got, v.Val(i))
}

// Unmarshalable reports whether the default marshaler rejects value index i.
func (v *ValDialect) Unmarshalable(i int) bool { return v.Name == "inf" && i%5 == 2 }

// Distinct reports whether value indexes i and j denote different values.
func (v *ValDialect) Distinct(i, j int) bool {
	if v.Name == "nil" {
		return false
	}
	if v.Name == "inf" && i%5 == 2 && j%5 == 2 {
		return false // +Inf is +Inf
	}
	if v.Name == "ptr" && i%10 == 4 && j%10 == 4 {
		return false // a nil pointer is a nil pointer
	}
	if v.Name == "bytes" && i%10 == j%10 && (i%10 == 3 || i%10 == 7) {
		return false // nil is nil, empty is empty
	}
	return i != j
}

var allKeyDialects = []string{"int", "int64", "uint", "uint64", "string", "bytes", "userkey", "struct", "lstruct", "namedint"}
var allValDialects = []string{"int", "string", "struct", "bytes", "lval", "ptr", "bigstr", "inf", "nil", "hugestr", "numiface"}
