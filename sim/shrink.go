package sim

import "testing"

// Shrink minimises a failing scenario (ddmin-style over the explicit op list,
// then argument simplification) while the same violation signature persists.
// Every candidate is run with a fresh seeded chooser (no tape), so candidates
// are themselves exactly repeatable.
func Shrink(t *testing.T, sc *Scenario, sig string, runner func(*testing.T, *Scenario) *World, budget int) *Scenario {
	best := sc.Clone()
	best.Tape = nil
	tries := 0
	fails := func(c *Scenario) bool {
		if tries >= budget {
			return false
		}
		tries++
		c.Tape = nil
		w := runner(t, c)
		return w != nil && w.viol != nil && w.viol.Sig == sig
	}
	if !fails(best.Clone()) {
		// with a fresh chooser the failure does not reproduce: keep the tape-driven original
		return sc.Clone()
	}
	// 1. truncate after the failing op
	// (ops after the violation never ran)
	{
		c := best.Clone()
		w := runner(t, c)
		if w != nil && w.viol != nil && w.viol.OpIdx+1 < len(c.Ops) {
			c.Ops = c.Ops[:w.viol.OpIdx+1]
			if fails(c.Clone()) {
				best = c
			}
		}
	}
	// 2. remove chunks
	n := 2
	for len(best.Ops) >= 2 && tries < budget {
		chunk := (len(best.Ops) + n - 1) / n
		reduced := false
		for start := 0; start < len(best.Ops); start += chunk {
			end := start + chunk
			if end > len(best.Ops) {
				end = len(best.Ops)
			}
			c := best.Clone()
			c.Ops = append(append([]Op(nil), best.Ops[:start]...), best.Ops[end:]...)
			if len(c.Ops) == 0 {
				continue
			}
			if fails(c.Clone()) {
				best = c
				reduced = true
				if n > 2 {
					n--
				}
				break
			}
		}
		if !reduced {
			if chunk <= 1 {
				break
			}
			n *= 2
			if n > len(best.Ops) {
				n = len(best.Ops)
			}
		}
	}
	// 3. simplify configuration
	trycfg := func(mut func(c *Config)) {
		c := best.Clone()
		mut(&c.Cfg)
		if fails(c.Clone()) {
			best = c
		}
	}
	if best.Cfg.Cache != "none" {
		trycfg(func(c *Config) { c.Cache = "none" })
	}
	if best.Cfg.Disks > 1 {
		trycfg(func(c *Config) { c.Disks = 1 })
	}
	// 4. simplify op arguments
	for i := range best.Ops {
		if tries >= budget {
			break
		}
		op := best.Ops[i]
		if len(op.S) > 1 {
			for l := len(op.S) / 2; l >= 1 && tries < budget; l /= 2 {
				c := best.Clone()
				c.Ops[i].S = c.Ops[i].S[:len(c.Ops[i].S)-l]
				if fails(c.Clone()) {
					best = c
				}
			}
		}
		if op.K == "bulk" && op.N > 4 {
			for _, n := range []int{op.N / 8, op.N / 2} {
				if n < 1 {
					continue
				}
				c := best.Clone()
				c.Ops[i].N = n
				if fails(c.Clone()) {
					best = c
					break
				}
			}
		}
	}
	return best
}
