package sim

import (
	"bufio"
	"encoding/json"
	"fmt"
	"os"
	"path/filepath"
	"sort"
	"strings"
	"testing"
	"time"
)

// KnownFinding is one line of /verif/known_findings.jsonl.
type KnownFinding struct {
	Property  string `json:"property"`
	Signature string `json:"signature"`
	Status    string `json:"status"` // known | fixed
	Finding   string `json:"finding"`
	Commit    string `json:"commit,omitempty"`
	Example   string `json:"example,omitempty"`
}

func LoadKnown(path string) (map[string]KnownFinding, error) {
	out := map[string]KnownFinding{}
	f, err := os.Open(path)
	if err != nil {
		if os.IsNotExist(err) {
			return out, nil
		}
		return nil, err
	}
	defer f.Close()
	sc := bufio.NewScanner(f)
	sc.Buffer(make([]byte, 1<<20), 1<<20)
	for sc.Scan() {
		line := strings.TrimSpace(sc.Text())
		if line == "" || strings.HasPrefix(line, "#") {
			continue
		}
		var k KnownFinding
		if err := json.Unmarshal([]byte(line), &k); err != nil {
			return nil, fmt.Errorf("known findings: %w", err)
		}
		if k.Status == "known" {
			out[k.Signature] = k
		}
	}
	return out, sc.Err()
}

// ViolationReport is a violation as recorded in a shard report.
type ViolationReport struct {
	Property  string `json:"property"`
	Signature string `json:"signature"`
	Detail    string `json:"detail"`
	Replay    string `json:"replay"`
	Seed      uint64 `json:"seed"`
	OpsBefore int    `json:"ops_before_shrink"`
	OpsAfter  int    `json:"ops_after_shrink"`
	Confirmed bool   `json:"confirmed_in_fresh_process"`
}

// ShardReport is what one shard process writes.
type ShardReport struct {
	Property    string            `json:"property"`
	Engine      string            `json:"engine"`
	Shard       int               `json:"shard"`
	Tier        string            `json:"tier"`
	BaseSeed    uint64            `json:"base_seed"`
	FirstSeed   uint64            `json:"first_run_seed"`
	LastSeed    uint64            `json:"last_run_seed"`
	Evaluations int               `json:"evaluations"`
	NonTrivial  []uint64          `json:"nontrivial_hashes"`
	States      []uint64          `json:"state_hashes"`
	Schedules   []uint64          `json:"schedule_hashes"`
	schedSet    map[uint64]bool
	Samples     []json.RawMessage `json:"samples"`
	Faults      map[string]int    `json:"faults_fired"`
	Probes      map[string]int    `json:"probes"`
	Max         map[string]int    `json:"max"`
	Truncated   map[string]int    `json:"truncated_unrelated"`
	Steps       int               `json:"sim_steps"`
	Ops         int               `json:"ops"`
	OracleEvals int               `json:"oracle_evaluations"`
	MaxInflight int               `json:"max_inflight_stores"`
	Violations  []ViolationReport `json:"violations"`
	KnownHits   map[string]int    `json:"known_findings_hit"`
	KnownWhat   map[string]string `json:"known_findings_what"`
	WallS       float64           `json:"wall_s"`
	Exhaustive  bool              `json:"exhaustive,omitempty"`
	Note        string            `json:"note,omitempty"`
}

func newShardReport(prop, engine string, shard int, tier string, seed uint64) *ShardReport {
	return &ShardReport{Property: prop, Engine: engine, Shard: shard, Tier: tier, BaseSeed: seed,
		Faults: map[string]int{}, Probes: map[string]int{}, Max: map[string]int{}, Truncated: map[string]int{},
		KnownHits: map[string]int{}, KnownWhat: map[string]string{}}
}

func (r *ShardReport) absorb(st *Stats) {
	if r.schedSet == nil {
		r.schedSet = map[uint64]bool{}
	}
	for h := range st.Sched {
		if !r.schedSet[h] && len(r.Schedules) < 2000000 {
			r.schedSet[h] = true
			r.Schedules = append(r.Schedules, h)
		}
	}
	r.Steps += st.Steps
	r.Ops += st.Ops
	r.OracleEvals += st.OracleEvals
	for k, v := range st.Faults {
		r.Faults[k] += v
	}
	for k, v := range st.Probes {
		r.Probes[k] += v
	}
	for k, v := range st.Max {
		if v > r.Max[k] {
			r.Max[k] = v
		}
	}
	if st.MaxInflight > r.MaxInflight {
		r.MaxInflight = st.MaxInflight
	}
	if st.Truncated != "" {
		key := st.Truncated
		if i := strings.Index(key, ":"); i > 0 {
			key = key[:i]
		}
		r.Truncated[key]++
	}
}

// ShardEnv is the environment a shard runs in.
type ShardEnv struct {
	Prop     string
	Tier     string
	Shard    int
	Shards   int
	Seed     uint64
	OutDir   string
	Budget   time.Duration
	MaxRuns  int
	Known    map[string]KnownFinding
	ReplayDir string
}

// nontrivial decides, per property, whether a finished run exercised the
// property's oracle in a non-trivial way (see evidence "rule").
func nontrivial(prop string, w *World) bool {
	st := w.st
	p := st.Probes
	switch prop {
	case "C01":
		return st.Ops >= 5 && (p["persist-ok"] > 0 || w.cfg.InMemory) && st.Truncated == ""
	case "C03":
		return p["persist-ok"]+p["flush-with-failed-store"] > 0 && (st.MaxInflight >= 2) && (p["non-fifo-completion"] > 0 || p["flush-with-failed-store"] > 0)
	default:
		return st.OracleEvals > 0
	}
}

func runHash(sc *Scenario, w *World) (uint64, uint64) {
	h := newHasher()
	cj, _ := json.Marshal(sc.Cfg)
	h.Str(string(cj))
	for _, op := range sc.Ops {
		h.Str(op.K)
		h.Int(op.T)
		h.Int(op.Key)
	}
	s := newHasher()
	s.Str(string(cj))
	for _, t := range w.trees {
		if t == nil {
			s.Str("-")
			continue
		}
		t.model.Hash(s)
		if t.m != nil {
			s.Str(t.m.VerifRootKind())
		}
	}
	return h.Sum(), s.Sum()
}

// RunHistoryShard is the main loop of a history-engine shard.
// liveReport is the report of the shard loop currently running (for the hang watchdog).
var liveReport *ShardReport

func RunHistoryShard(t *testing.T, env *ShardEnv) *ShardReport {
	rep := newShardReport(env.Prop, "history", env.Shard, env.Tier, env.Seed)
	liveReport = rep
	start := time.Now()
	shardSeed := mixSeed(env.Seed, strSeed(env.Prop), uint64(env.Shard))
	nt := map[uint64]bool{}
	states := map[uint64]bool{}
	unknown := 0
	racePass := os.Getenv("VERIF_RACE_PASS") == "1"
	if racePass {
		theRaceLog = newRaceLog()
		rep.Probes["race-built-shards"]++
	}
	for i := 0; ; i++ {
		if env.MaxRuns > 0 && i >= env.MaxRuns {
			break
		}
		if time.Since(start) > env.Budget {
			break
		}
		seed := mixSeed(shardSeed, uint64(i))
		if i == 0 {
			rep.FirstSeed = seed
		}
		rep.LastSeed = seed
		sc := GenScenario(env.Prop, seed, env.Tier)
		t0 := time.Now()
		w := RunScenario(t, sc)
		if d := time.Since(t0); d > 2*time.Second {
			fmt.Fprintf(os.Stderr, "slow run: seed=%d %v ops=%d cfg=%+v\n", seed, d, len(sc.Ops), sc.Cfg)
		}
		rep.Evaluations++
		rep.absorb(w.st)
		if racePass && w.viol == nil {
			if sig, detail, _ := theRaceLog.poll(); sig != "" {
				rep.Probes["race-pass-reports"]++
				sig = strings.Replace(sig, "C11/data-race/", env.Prop+"/data-race-in-flush/", 1)
				w.viol = &Violation{Prop: env.Prop, Sig: sig, Detail: "race detector report with mast frames during a history run (race-built shard):\n" + detail, OpIdx: len(sc.Ops) - 1}
			}
		}
		if nontrivial(env.Prop, w) {
			a, b := runHash(sc, w)
			nt[a] = true
			states[b] = true
		}
		if len(rep.Samples) < 2 && nontrivial(env.Prop, w) && len(sc.Ops) <= 40 {
			sc2 := sc.Clone()
			sc2.Tape = w.ch.Tape()
			if len(sc2.Tape) > 60 {
				sc2.Tape = sc2.Tape[:60]
			}
			b, _ := json.Marshal(sc2)
			rep.Samples = append(rep.Samples, b)
		}
		if w.viol != nil {
			if k, ok := env.Known[w.viol.Sig]; ok {
				rep.KnownHits[w.viol.Sig]++
				rep.KnownWhat[w.viol.Sig] = k.Finding
				continue
			}
			vr := handleViolation(t, env, sc, w, RunScenario)
			if vr.Replay == "" {
				rep.Truncated["violation-not-reproducible-in-fresh-process"]++
				rep.Note = "some in-process failures did not reproduce in a fresh process (state leaking between runs of one process): " + vr.Signature
				continue
			}
			rep.Violations = append(rep.Violations, vr)
			unknown++
			if unknown >= 3 {
				break
			}
		}
	}
	for h := range nt {
		rep.NonTrivial = append(rep.NonTrivial, h)
	}
	for h := range states {
		rep.States = append(rep.States, h)
	}
	sort.Slice(rep.NonTrivial, func(i, j int) bool { return rep.NonTrivial[i] < rep.NonTrivial[j] })
	sort.Slice(rep.States, func(i, j int) bool { return rep.States[i] < rep.States[j] })
	rep.WallS = time.Since(start).Seconds()
	return rep
}

// handleViolation confirms a failing scenario in a fresh process (a failure that depends on
// state left behind by earlier runs of this shard process is not a replayable violation),
// shrinks it, re-records its tape, and writes the replay file.
func handleViolation(t *testing.T, env *ShardEnv, sc *Scenario, w *World, runner func(*testing.T, *Scenario) *World) ViolationReport {
	sig := w.viol.Sig
	orig := len(sc.Ops)
	os.MkdirAll(env.ReplayDir, 0o755)
	save := func(s *Scenario, fw *World, suffix string) string {
		s.Tape = fw.ch.Tape()
		if fw.viol != nil {
			s.Signature, s.Detail = fw.viol.Sig, fw.viol.Detail
		} else {
			s.Signature, s.Detail = sig, w.viol.Detail
		}
		s.LogHash = fmt.Sprintf("%x", fw.log.Sum())
		s.ShrunkFrom = orig
		name := fmt.Sprintf("%s-s%d-%x-%x%s.json", env.Prop, env.Shard, sc.Seed, fnv64([]byte(sig+fmt.Sprint(s.Extra)))&0xffffff, suffix)
		path := filepath.Join(env.ReplayDir, name)
		s.Save(path)
		return path
	}
	// 1. the unshrunk scenario, with the tape this run recorded
	full := sc.Clone()
	fullPath := save(full, w, "-full")
	if ok, _ := confirmReplay(fullPath, sig); !ok {
		os.Remove(fullPath)
		return ViolationReport{Property: env.Prop, Signature: sig, Detail: w.viol.Detail + " [not reproducible in a fresh process: depends on state left by earlier runs in this process]", Seed: sc.Seed, OpsBefore: orig, OpsAfter: orig}
	}
	// 2. shrink, re-record, confirm the shrunk file too
	shrinkBudget := 400
	if v := os.Getenv("VERIF_SHRINK_TRIES"); v != "" {
		// development aid (regression sweeps over many seeded changes): fewer shrink attempts
		fmt.Sscanf(v, "%d", &shrinkBudget)
	}
	small := Shrink(t, sc, sig, runner, shrinkBudget)
	small.Tape = nil
	fw := runner(t, small)
	if fw.viol != nil && fw.viol.Sig == sig {
		p := save(small, fw, "")
		if ok, _ := confirmReplay(p, sig); ok {
			os.Remove(fullPath)
			return ViolationReport{Property: env.Prop, Signature: small.Signature, Detail: small.Detail, Replay: p, Seed: sc.Seed, OpsBefore: orig, OpsAfter: len(small.Ops)}
		}
		os.Remove(p)
	}
	return ViolationReport{Property: env.Prop, Signature: sig, Detail: w.viol.Detail, Replay: fullPath, Seed: sc.Seed, OpsBefore: orig, OpsAfter: orig}
}

func mustJSON(v interface{}) json.RawMessage {
	b, _ := json.Marshal(v)
	return b
}

func writeJSON(path string, v interface{}) error {
	b, err := json.MarshalIndent(v, "", " ")
	if err != nil {
		return err
	}
	tmp := path + ".tmp"
	if err := os.WriteFile(tmp, b, 0o644); err != nil {
		return err
	}
	return os.Rename(tmp, path)
}
