package sim

import (
	"runtime"
	"bufio"
	"context"
	"encoding/json"
	"fmt"
	"os"
	"os/exec"
	"path/filepath"
	"reflect"
	"regexp"
	"sort"
	"strings"
	"sync"
	"sync/atomic"
	"syscall"
	"testing"
	"time"
	"unsafe"

	"github.com/jrhy/mast"
)

// C11 engine: N caller threads, one runs at a time, hand-off invisible to the race detector.
//
// Each client is a real goroutine that owns its own trees and executes its own op list. Every
// Persist / NodeCache call a client makes (entry and exit) and every op boundary is a yield
// point: the client reports to the scheduler and parks; the scheduler (sole owner of the
// chooser) picks who runs next. Parking and waking use raw SYS_READ / SYS_WRITE on pipes,
// which the race detector does not treat as synchronisation: execution is fully serialised and
// replayable, yet the detector sees no happens-before edge between clients, so a conflicting
// access to a node object shared by two clients is reported as a data race whatever the
// interleaving. The binary is built with -race.
//
// Two bindings: "frozen" (a pre-populated read-only node cache and store shared by all clients
// plus per-client private overlays: no locks at all, nothing masks a race) and "live" (one real
// ARC cache and one locked store shared by all clients as in production; there the schedule
// matters and the behavioural oracles decide).

func rawWrite(fd int, b byte) {
	buf := [1]byte{b}
	for {
		n, _, e := syscall.Syscall(syscall.SYS_WRITE, uintptr(fd), uintptr(unsafe.Pointer(&buf[0])), 1)
		if e == syscall.EINTR {
			continue
		}
		if n == 1 {
			return
		}
		panic(fmt.Sprintf("baton write: n=%d errno=%v", n, e))
	}
}

func rawRead(fd int) byte {
	var buf [1]byte
	for {
		n, _, e := syscall.Syscall(syscall.SYS_READ, uintptr(fd), uintptr(unsafe.Pointer(&buf[0])), 1)
		if e == syscall.EINTR {
			continue
		}
		if n == 1 {
			return buf[0]
		}
		panic(fmt.Sprintf("baton read: n=%d errno=%v", n, e))
	}
}

// rawReadTimeout waits up to ms milliseconds for a byte (poll(2) + read(2), both raw).
func rawReadTimeout(fd int, ms int) (byte, bool) {
	type pollfd struct {
		fd      int32
		events  int16
		revents int16
	}
	for {
		p := pollfd{fd: int32(fd), events: 1} // POLLIN
		n, _, e := syscall.Syscall(syscall.SYS_POLL, uintptr(unsafe.Pointer(&p)), 1, uintptr(ms))
		if e == syscall.EINTR {
			continue
		}
		if e != 0 {
			panic(fmt.Sprintf("baton poll: errno=%v", e))
		}
		if n == 0 {
			return 0, false
		}
		return rawRead(fd), true
	}
}

// goid returns the current goroutine's id (the dispatching cache handles have no context to
// carry the client in).
func goid() int64 {
	var buf [64]byte
	n := runtime.Stack(buf[:], false)
	// "goroutine 123 ["
	var id int64
	for _, ch := range buf[len("goroutine "):n] {
		if ch < '0' || ch > '9' {
			break
		}
		id = id*10 + int64(ch-'0')
	}
	return id
}

type baton struct {
	toSched [2]int
	wake    [][2]int
}

func newBaton(n int) (*baton, error) {
	b := &baton{wake: make([][2]int, n)}
	var p [2]int
	if err := syscall.Pipe(p[:]); err != nil {
		return nil, err
	}
	b.toSched = p
	for i := range b.wake {
		var q [2]int
		if err := syscall.Pipe(q[:]); err != nil {
			return nil, err
		}
		b.wake[i] = q
	}
	return b, nil
}

func (b *baton) close() {
	syscall.Close(b.toSched[0])
	syscall.Close(b.toSched[1])
	for _, q := range b.wake {
		syscall.Close(q[0])
		syscall.Close(q[1])
	}
}

// tclient is one simulated caller thread.
type tclient struct {
	id      int
	bt      *baton
	solo    bool // no scheduler: yields are no-ops
	inFlush bool
	yields  int
	ops     []Op
	trees   []*mast.Mast
	other   *mast.Mast // the other common persisted version, loaded at setup and only ever read (a diff partner)
	trace   []string
	kd      *KeyDialect
	vd      *ValDialect
	cfg     *Config
	disk    mast.Persist
	cache   mast.NodeCache
	reg     chan int64      // the client goroutine announces its goroutine id here, then waits for start
	start   chan struct{}
	ctx     context.Context // carries the client (for the dispatching handles); cancelled for a "gave up" client
}

type tclientKey struct{}

func (c *tclient) yield() {
	if c.solo || c.inFlush {
		return
	}
	c.yields++
	rawWrite(c.bt.toSched[1], byte(c.id))
	rawRead(c.bt.wake[c.id][0])
}

// ---- frozen binding: lock-free shared maps + private overlays ----

type frozenDisk struct {
	c      *tclient
	shared map[string][]byte
	mu     sync.Mutex // only this client's flush workers contend
	priv   map[string][]byte
	prefix string
}

func (d *frozenDisk) NodeURLPrefix() string { return d.prefix }
func (d *frozenDisk) Load(ctx context.Context, name string) ([]byte, error) {
	d.c.yield()
	d.mu.Lock()
	b, ok := d.priv[name]
	d.mu.Unlock()
	if !ok {
		b, ok = d.shared[name]
	}
	d.c.yield()
	if !ok {
		return nil, fmt.Errorf("%w: %s", ErrInjNotFound, name)
	}
	return append([]byte(nil), b...), nil
}
func (d *frozenDisk) Store(ctx context.Context, name string, b []byte) error {
	d.c.yield()
	d.mu.Lock()
	d.priv[name] = append([]byte(nil), b...)
	d.mu.Unlock()
	d.c.yield()
	return nil
}

type frozenCache struct {
	c      *tclient
	shared map[string]interface{}
	mu     sync.Mutex
	priv   map[string]interface{}
}

func (fc *frozenCache) Add(key, value interface{}) {
	fc.c.yield()
	fc.mu.Lock()
	fc.priv[key.(string)] = value
	fc.mu.Unlock()
	fc.c.yield()
}
func (fc *frozenCache) Contains(key interface{}) bool {
	fc.c.yield()
	fc.mu.Lock()
	_, ok := fc.priv[key.(string)]
	fc.mu.Unlock()
	if !ok {
		_, ok = fc.shared[key.(string)]
	}
	return ok
}
func (fc *frozenCache) Get(key interface{}) (interface{}, bool) {
	fc.c.yield()
	fc.mu.Lock()
	v, ok := fc.priv[key.(string)]
	fc.mu.Unlock()
	if !ok {
		v, ok = fc.shared[key.(string)]
	}
	fc.c.yield()
	return v, ok
}

// ---- handles of a common parent tree whose clones are handed to different clients ----
//
// A clone copies the parent's Persist and NodeCache handles, so the handles of a parent that is
// cloned for several clients cannot belong to one client. They dispatch to whichever client is
// running (set by the scheduler with an atomic store just before it wakes that client: an edge
// scheduler->client only, never client->client).

var runningClient atomic.Pointer[tclient]

var blockedSeen atomic.Int64 // clients found waiting for a parked peer, in this process

type dispatchDisk struct{ prefix string }

func (d *dispatchDisk) NodeURLPrefix() string { return d.prefix }
func (d *dispatchDisk) Load(ctx context.Context, name string) ([]byte, error) {
	return clientOf(ctx).disk.Load(ctx, name)
}
func (d *dispatchDisk) Store(ctx context.Context, name string, b []byte) error {
	return clientOf(ctx).disk.Store(ctx, name, b)
}

type dispatchCache struct{}

func (dispatchCache) Add(k, v interface{})               { clientOf(nil).cache.Add(k, v) }
func (dispatchCache) Contains(k interface{}) bool        { return clientOf(nil).cache.Contains(k) }
func (dispatchCache) Get(k interface{}) (interface{}, bool) { return clientOf(nil).cache.Get(k) }

// clientByGoid is written by the main goroutine before the clients are let go (they receive
// from a channel it closes afterwards) and only read from then on.
var clientByGoid map[int64]*tclient

// clientOf finds the client a call belongs to: from the context when there is one, else by
// goroutine, else (setup on the main goroutine) the one the scheduler last named.
func clientOf(c context.Context) *tclient {
	if c != nil {
		if tc, ok := c.Value(tclientKey{}).(*tclient); ok {
			return tc
		}
	}
	if tc, ok := clientByGoid[goid()]; ok {
		return tc
	}
	return runningClient.Load()
}

// ---- live binding: one real cache and one locked store, yields around every call ----

type liveDisk struct {
	c     *tclient
	inner *SimDisk
}

func (d *liveDisk) NodeURLPrefix() string { return d.inner.NodeURLPrefix() }
func (d *liveDisk) Load(ctx context.Context, name string) ([]byte, error) {
	d.c.yield()
	if err := ctx.Err(); err != nil {
		// like a network store, the request of a caller that gave up fails with its context's error
		d.c.yield()
		return nil, err
	}
	b, err := d.inner.Load(ctx, name)
	d.c.yield()
	return b, err
}
func (d *liveDisk) Store(ctx context.Context, name string, b []byte) error {
	d.c.yield()
	if err := ctx.Err(); err != nil {
		d.c.yield()
		return err
	}
	err := d.inner.Store(ctx, name, b)
	d.c.yield()
	return err
}

type liveCache struct {
	c     *tclient
	inner mast.NodeCache
}

func (lc *liveCache) Add(key, value interface{}) {
	lc.c.yield()
	lc.inner.Add(key, value)
	lc.c.yield() // after the node is visible to others, before the caller continues
}
func (lc *liveCache) Contains(key interface{}) bool {
	lc.c.yield()
	return lc.inner.Contains(key)
}
func (lc *liveCache) Get(key interface{}) (interface{}, bool) {
	lc.c.yield()
	v, ok := lc.inner.Get(key)
	lc.c.yield()
	return v, ok
}

// ---- client op execution (records an API-visible trace; no shared harness state) ----

func (c *tclient) note(i int, s string) { c.trace = append(c.trace, fmt.Sprintf("%d:%s", i, s)) }

func (c *tclient) obs(m *mast.Mast) string {
	ctx := c.ctx
	var sb strings.Builder
	err := m.Iter(ctx, func(k, v interface{}) error {
		ki, _ := c.kd.Index(k)
		fmt.Fprintf(&sb, "%d=%v,", ki, v)
		return nil
	})
	if err != nil {
		return "ERR:" + err.Error()
	}
	return sb.String()
}

func (c *tclient) exec(i int, op *Op) {
	defer func() {
		if r := recover(); r != nil {
			c.note(i, fmt.Sprintf("%s PANIC %v", op.K, r))
		}
	}()
	if len(c.trees) == 0 {
		return
	}
	ctx := c.ctx
	t := c.trees[op.A%len(c.trees)]
	key := func() interface{} { return c.kd.Key(op.Key % c.cfg.U) }
	switch op.K {
	case "ins":
		err := t.Insert(ctx, key(), c.vd.Val(op.Val))
		c.note(i, fmt.Sprintf("ins err=%v size=%d", err, t.Size()))
	case "del":
		var cur int
		pv := reflect.New(reflect.TypeOf(c.vd.Like()))
		found, err := t.Get(ctx, key(), pv.Interface())
		if err == nil && found {
			cur = 1
			err = t.Delete(ctx, key(), pv.Elem().Interface())
		}
		c.note(i, fmt.Sprintf("del found=%d err=%v size=%d", cur, err, t.Size()))
	case "get":
		pv := reflect.New(reflect.TypeOf(c.vd.Like()))
		found, err := t.Get(ctx, key(), pv.Interface())
		c.note(i, fmt.Sprintf("get found=%v err=%v val=%v", found, err, pv.Elem().Interface()))
	case "iter":
		c.note(i, "iter "+c.obs(t))
	case "seek":
		var sb strings.Builder
		n := 0
		err := t.SeekIter(ctx, key(), func(k, v interface{}) error {
			ki, _ := c.kd.Index(k)
			fmt.Fprintf(&sb, "%d,", ki)
			n++
			if n >= 5 {
				return mast.ErrIterDone
			}
			return nil
		})
		c.note(i, fmt.Sprintf("seek err=%v %s", err, sb.String()))
	case "persist":
		c.inFlush = true // the flush's own worker goroutines are not schedulable threads of this engine
		root, err := t.MakeRoot(ctx)
		c.inFlush = false
		if err != nil {
			c.note(i, "persist err="+err.Error())
		} else {
			l := ""
			if root.Link != nil {
				l = *root.Link
			}
			c.note(i, fmt.Sprintf("persist root=%s size=%d height=%d", l, root.Size, root.Height))
		}
	case "clone":
		cl, err := t.Clone(ctx)
		if err == nil {
			c.trees = append(c.trees, &cl)
		}
		c.note(i, fmt.Sprintf("clone err=%v", err))
	case "memstore":
		// every client may create its own in-memory stores while others do the same
		p := mast.NewInMemoryStore()
		err := p.Store(ctx, "n", []byte{byte(op.Val)})
		b, err2 := p.Load(ctx, "n")
		c.note(i, fmt.Sprintf("memstore err=%v %v len=%d prefix-nonempty=%v", err, err2, len(b), p.NodeURLPrefix() != ""))
	case "cur":
		var sb strings.Builder
		cur, err := t.Cursor(ctx)
		if err == nil {
			if op.Val%2 == 0 {
				err = cur.Min(ctx)
			} else {
				err = cur.Ceil(ctx, key())
			}
			for j := 0; j < 6 && err == nil; j++ {
				k, _, ok := cur.Get()
				if !ok {
					break
				}
				ki, _ := c.kd.Index(k)
				fmt.Fprintf(&sb, "%d,", ki)
				if op.Val%3 == 0 {
					err = cur.Backward(ctx)
				} else {
					err = cur.Forward(ctx)
				}
			}
		}
		c.note(i, fmt.Sprintf("cur err=%v %s", err, sb.String()))
	case "dlinks":
		o := c.trees[op.B%len(c.trees)]
		if op.Val%2 == 1 && c.other != nil {
			o = c.other
		}
		var sb strings.Builder
		err := t.DiffLinks(ctx, o, func(removed bool, link interface{}) (bool, error) {
			if s, ok := link.(string); ok {
				fmt.Fprintf(&sb, "%v:%s,", removed, s)
			} else {
				fmt.Fprintf(&sb, "%v:(unsaved node),", removed)
			}
			return true, nil
		})
		c.note(i, fmt.Sprintf("dlinks err=%v %s", err, sb.String()))
	case "diff":
		o := c.trees[op.B%len(c.trees)]
		if op.Val%2 == 1 && c.other != nil {
			o = c.other
		}
		var sb strings.Builder
		err := t.DiffIter(ctx, o, func(a, r bool, k, av, rv interface{}) (bool, error) {
			ki, _ := c.kd.Index(k)
			fmt.Fprintf(&sb, "%v%v%d,", a, r, ki)
			return true, nil
		})
		c.note(i, fmt.Sprintf("diff err=%v %s", err, sb.String()))
	}
}

func (c *tclient) run(wg *sync.WaitGroup) {
	defer wg.Done()
	if c.reg != nil {
		c.reg <- goid()
		<-c.start
	}
	if !c.solo {
		rawRead(c.bt.wake[c.id][0]) // wait for the first turn
	}
	for i := range c.ops {
		c.exec(i, &c.ops[i])
		c.yield()
	}
	c.note(len(c.ops), "final "+c.obs(c.trees[0]))
	if !c.solo {
		rawWrite(c.bt.toSched[1], byte(c.id)|0x80)
	}
}

// ---- scenario ----

// GenThreadScenario: Cfg.Cache = binding (frozen|live); Extra[clients]; setup = bulk + persists
// executed by the main goroutine before the clients start; Ops carry T = client.
func GenThreadScenario(seed uint64, tier string) *Scenario {
	g := NewGen(seed)
	sc := &Scenario{Property: "C11", Engine: "threads", Seed: seed, Extra: map[string]int{}}
	c := &sc.Cfg
	c.BF = []uint{2, 3, 4, 16}[g.Intn(4)]
	c.Format = []string{FmtBinary, FmtMarshaler}[g.Intn(2)]
	c.Marshaler = "json"
	c.KeyD = []string{"int", "string", "uint64", "userkey", "bytes", "string", "lstruct"}[g.Intn(7)]
	c.ValD = []string{"int", "string", "struct"}[g.Intn(3)]
	c.U = []int{12, 24, 48, 100}[g.Intn(4)]
	if c.KeyD == "userkey" {
		c.Layers = genLayers(g, c.U)
	}
	c.Cache = []string{"frozen", "frozen", "live", "live-tiny:1", "live-tiny:2", "live-tiny:4"}[g.Intn(6)]
	c.Disks = 1
	sc.Extra["clients"] = 2 + g.Intn(3)
	sc.Extra["setup_seed"] = g.Intn(1 << 30)
	sc.Extra["setup_n"] = g.Range(c.U/3, c.U)
	sc.Extra["setup_mods"] = g.Intn(6)
	sc.Extra["from_clone"] = g.Intn(4) // 0: clients load roots; 1: each client clones its own loaded tree; 2: mixed; 3: all clients get clones of ONE common parent tree
	if strings.HasPrefix(c.Cache, "live-tiny") && g.Intn(3) == 0 {
		sc.Extra["cancelled"] = 1 + g.Intn(sc.Extra["clients"])
	}
	n := g.Range(6, 40)
	if sc.Extra["from_clone"] == 3 {
		// the common parent has this many unsaved inserts when it is cloned for the clients
		sc.Extra["parent_dirty"] = g.Intn(4)
	}
	ws := []int{30, 14, 6, 4, 3, 8, 3, 3, 4, 2, 3}
	kinds := []string{"ins", "del", "get", "iter", "seek", "persist", "clone", "diff", "cur", "memstore", "dlinks"}
	hot := []int{g.Intn(c.U), g.Intn(c.U), g.Intn(c.U)}
	for i := 0; i < n; i++ {
		op := Op{K: kinds[g.Pick(ws)], T: g.Intn(sc.Extra["clients"]), Key: g.Intn(c.U), Val: g.Intn(50), A: g.Intn(3), B: g.Intn(3)}
		if g.Intn(3) == 0 {
			op.Key = hot[g.Intn(len(hot))] // clients converge on a few keys
			op.Val = op.Key % 3
		}
		sc.Ops = append(sc.Ops, op)
		if g.Intn(6) == 0 {
			// re-create persisted content: insert then delete the same key (or the reverse via a
			// later op), then persist, so that a node with an already-known hash is committed again
			k := g.Intn(c.U)
			sc.Ops = append(sc.Ops,
				Op{K: "ins", T: op.T, Key: k, Val: 7, A: op.A},
				Op{K: "del", T: op.T, Key: k, A: op.A},
				Op{K: "persist", T: op.T, A: op.A})
		}
	}
	return sc
}

// threadSetup builds the common persisted versions on a fresh SimDisk (main goroutine).
type threadBase struct {
	disk  *SimDisk
	roots []*mast.Root
	kd    *KeyDialect
	vd    *ValDialect
}

func buildThreadBase(sc *Scenario) (*threadBase, error) {
	cfg := &sc.Cfg
	tb := &threadBase{disk: NewSimDisk("sim://shared"), kd: NewKeyDialect(cfg.KeyD, cfg.U, cfg.Layers), vd: &ValDialect{cfg.ValD}}
	m, err := cfg.NewRoot().LoadMast(ctx, cfg.RemoteConfig(tb.kd, tb.vd, tb.disk, nil, nil))
	if err != nil {
		return nil, err
	}
	g := NewGen(uint64(sc.Extra["setup_seed"]))
	for i := 0; i < sc.Extra["setup_n"]; i++ {
		if err := m.Insert(ctx, tb.kd.Key(g.Intn(cfg.U)), tb.vd.Val(g.Intn(50))); err != nil {
			return nil, err
		}
	}
	r0, err := m.MakeRoot(ctx)
	if err != nil {
		return nil, err
	}
	tb.roots = append(tb.roots, r0)
	for i := 0; i < sc.Extra["setup_mods"]; i++ {
		if err := m.Insert(ctx, tb.kd.Key(g.Intn(cfg.U)), tb.vd.Val(g.Intn(50))); err != nil {
			return nil, err
		}
	}
	r1, err := m.MakeRoot(ctx)
	if err != nil {
		return nil, err
	}
	tb.roots = append(tb.roots, r1)
	return tb, nil
}

// recordingCache collects every node object created while pre-loading (frozen binding).
type recordingCache struct{ m map[string]interface{} }

func (r *recordingCache) Add(k, v interface{})          { r.m[k.(string)] = v }
func (r *recordingCache) Contains(k interface{}) bool   { _, ok := r.m[k.(string)]; return ok }
func (r *recordingCache) Get(k interface{}) (interface{}, bool) { v, ok := r.m[k.(string)]; return v, ok }

type threadRun struct {
	blockedEvents int    // times a running client was found waiting for a parked peer
	stuck         string // every live client waits for another one for good
	traces  [][]string
	fpViol  string
	steps   int
	yields  int
}

// runThreads executes the clients either concurrently under the baton scheduler (solo < 0) or
// only client `solo` alone, on a fresh copy of the initial world.
func runThreads(sc *Scenario, ch *Chooser, solo int, logh *hasher) (*threadRun, error) {
	tb, err := buildThreadBase(sc)
	if err != nil {
		return nil, fmt.Errorf("setup: %w", err)
	}
	cfg := &sc.Cfg
	n := sc.Extra["clients"]
	if n < 1 {
		n = 1
	}
	bt, err := newBaton(n)
	if err != nil {
		return nil, err
	}
	defer bt.close()
	// shared structures
	sharedNodes := &recordingCache{m: map[string]interface{}{}}
	var liveC mast.NodeCache
	preload := true
	switch {
	case cfg.Cache == "live":
		liveC = mast.NewNodeCache(4096)
	case strings.HasPrefix(cfg.Cache, "live-tiny:"):
		// an evicting shared cache, cold at start: nodes enter and leave it while clients run
		sz := 2
		fmt.Sscanf(cfg.Cache, "live-tiny:%d", &sz)
		liveC = mast.NewNodeCache(sz)
		preload = false
	}
	// pre-load every node of both versions through the recording cache (main goroutine)
	for _, r := range tb.roots {
		m, err := r.LoadMast(ctx, cfg.RemoteConfig(tb.kd, tb.vd, tb.disk, sharedNodes, nil))
		if err != nil {
			return nil, fmt.Errorf("setup load: %w", err)
		}
		if err := m.Iter(ctx, func(k, v interface{}) error { return nil }); err != nil {
			return nil, fmt.Errorf("setup iter: %w", err)
		}
	}
	fpBefore := map[string]string{}
	for k, v := range sharedNodes.m {
		fp, _, _ := nodeFingerprint(v)
		fpBefore[k] = fp
		if liveC != nil && preload {
			liveC.Add(k, v)
		}
	}
	sharedBytes := map[string][]byte{}
	for _, name := range tb.disk.Names() {
		b, _ := tb.disk.Bytes(name)
		sharedBytes[name] = b
	}
	clients := make([]*tclient, n)
	for i := 0; i < n; i++ {
		c := &tclient{id: i, bt: bt, kd: tb.kd, vd: tb.vd, cfg: cfg, solo: solo >= 0}
		c.ctx = context.WithValue(ctx, tclientKey{}, c)
		if sc.Extra["cancelled"] == i+1 {
			// this caller has given up: every request it makes of the store fails with its
			// context's error; nobody else's may
			cctx, cancel := context.WithCancel(c.ctx)
			cancel()
			c.ctx = cctx
		}
		if liveC != nil {
			c.disk = &liveDisk{c: c, inner: tb.disk}
			c.cache = &liveCache{c: c, inner: liveC}
		} else {
			c.disk = &frozenDisk{c: c, shared: sharedBytes, priv: map[string][]byte{}, prefix: tb.disk.NodeURLPrefix()}
			c.cache = &frozenCache{c: c, shared: sharedNodes.m, priv: map[string]interface{}{}}
		}
		for _, op := range sc.Ops {
			if op.T%n == i {
				c.ops = append(c.ops, op)
			}
		}
		clients[i] = c
	}
	// initial trees (created by the main goroutine with yields disabled)
	var commonParent *mast.Mast
	for i, c := range clients {
		c.solo = true
		runningClient.Store(c)
		if sc.Extra["from_clone"] == 3 {
			if commonParent == nil {
				p, err := tb.roots[1].LoadMast(ctx, cfg.RemoteConfig(tb.kd, tb.vd, &dispatchDisk{prefix: tb.disk.NodeURLPrefix()}, dispatchCache{}, nil))
				if err != nil {
					return nil, err
				}
				commonParent = p
				pg := NewGen(uint64(sc.Extra["setup_seed"]) + 1)
				for j := 0; j < sc.Extra["parent_dirty"]; j++ {
					if err := p.Insert(ctx, tb.kd.Key(pg.Intn(cfg.U)), tb.vd.Val(pg.Intn(50))); err != nil {
						return nil, err
					}
				}
			}
			cl, err := commonParent.Clone(ctx)
			if err != nil {
				return nil, err
			}
			c.trees = append(c.trees, &cl)
			c.solo = solo >= 0
			continue
		}
		fromClone := sc.Extra["from_clone"] == 1 || (sc.Extra["from_clone"] == 2 && i%2 == 1)
		m, err := tb.roots[i%len(tb.roots)].LoadMast(ctx, cfg.RemoteConfig(tb.kd, tb.vd, c.disk, c.cache, nil))
		if err != nil {
			return nil, err
		}
		if o, err := tb.roots[(i+1)%len(tb.roots)].LoadMast(ctx, cfg.RemoteConfig(tb.kd, tb.vd, c.disk, c.cache, nil)); err == nil {
			c.other = o
		} else {
			return nil, err
		}
		if fromClone {
			// the client's tree is a clone (taken before the threads start) of a tree that
			// shares its nodes with everybody else's through the cache
			c2, err := m.Clone(ctx)
			if err != nil {
				return nil, err
			}
			c.trees = append(c.trees, &c2)
		} else {
			c.trees = append(c.trees, m)
		}
		c.solo = solo >= 0
	}
	tr := &threadRun{traces: make([][]string, n)}
	var wg sync.WaitGroup
	if solo >= 0 {
		runningClient.Store(clients[solo])
		clientByGoid = nil
		wg.Add(1)
		go clients[solo].run(&wg)
		wg.Wait()
		tr.traces[solo] = clients[solo].trace
		return tr, nil
	}
	{
		byGoid := map[int64]*tclient{}
		start := make(chan struct{})
		for _, c := range clients {
			c.reg = make(chan int64)
			c.start = start
			wg.Add(1)
			go c.run(&wg)
			byGoid[<-c.reg] = c
		}
		clientByGoid = byGoid
		close(start)
	}
	// the scheduler: one client runs at a time, chosen by the chooser. A client that neither
	// yields nor finishes within blockMs of real time is waiting for a peer that the scheduler
	// holds parked (legitimate: a lock or a shared in-flight request): it is set aside as
	// blocked and another parked client is chosen, so the peer can make the progress it waits
	// for. When every live client is blocked and none is parked, nothing the scheduler does can
	// help: the clients wait for each other for good.
	// once this process has seen a client wait for a parked peer, the code under test is known to
	// block across clients and the wait is cut short (a wrong guess only costs determinism of
	// that run: whatever really-concurrent execution follows must satisfy the property too)
	blockMs := 1000
	if blockedSeen.Load() > 0 {
		blockMs = 100
	}
	const deadMs = 20000
	parkedSet := map[int]bool{}
	for i := 0; i < n; i++ {
		parkedSet[i] = true
	}
	running := -1
	blocked := map[int]bool{}
	idleMs := 0
	for len(parkedSet)+len(blocked) > 0 || running >= 0 {
		if running < 0 && len(parkedSet) > 0 {
			ids := make([]int, 0, len(parkedSet))
			for id := range parkedSet {
				ids = append(ids, id)
			}
			sort.Ints(ids)
			pick := ids[ch.Intn(len(ids))]
			logh.Int(pick)
			tr.steps++
			delete(parkedSet, pick)
			running = pick
			runningClient.Store(clients[pick])
			rawWrite(bt.wake[pick][1], 1)
		}
		b, ok := rawReadTimeout(bt.toSched[0], blockMs)
		if ok {
			idleMs = 0
			id := int(b & 0x7f)
			if id == running {
				running = -1
			}
			delete(blocked, id)
			if b&0x80 == 0 {
				parkedSet[id] = true
			}
			continue
		}
		if running >= 0 {
			blocked[running] = true
			running = -1
			tr.blockedEvents++
			if blockedSeen.Add(1) == 1 {
				blockMs = 100
			}
			continue
		}
		if len(parkedSet) > 0 {
			continue
		}
		idleMs += blockMs
		if idleMs >= deadMs {
			ids := make([]int, 0, len(blocked))
			for id := range blocked {
				ids = append(ids, id)
			}
			sort.Ints(ids)
			tr.stuck = fmt.Sprintf("clients %v neither returned from their current operation nor reached the store or cache for %d s while no other client was held back", ids, deadMs/1000)
			for i, c := range clients {
				if !blocked[i] {
					tr.traces[i] = c.trace
				}
			}
			return tr, nil
		}
	}
	wg.Wait()
	for i, c := range clients {
		tr.traces[i] = c.trace
		tr.yields += c.yields
	}
	// cached-object fingerprints must not have changed
	keys := make([]string, 0, len(sharedNodes.m))
	for k := range sharedNodes.m {
		keys = append(keys, k)
	}
	sort.Strings(keys)
	for _, k := range keys {
		fp, _, _ := nodeFingerprint(sharedNodes.m[k])
		if fp != fpBefore[k] {
			tr.fpViol = fmt.Sprintf("shared node %s changed: was %q now %q", k[strings.LastIndex(k, "/")+1:], fpBefore[k], fp)
			break
		}
	}
	return tr, nil
}

var reRaceFrame = regexp.MustCompile(`^\s+(github\.com/jrhy/mast\.\S+)\(\)\s*$`)

// raceLog reads new DATA RACE blocks from the race detector's log file(s).
type raceLog struct {
	prefix string
	offset map[string]int64
}

func newRaceLog() *raceLog {
	gr := os.Getenv("GORACE")
	for _, f := range strings.Fields(gr) {
		if strings.HasPrefix(f, "log_path=") {
			return &raceLog{prefix: strings.TrimPrefix(f, "log_path="), offset: map[string]int64{}}
		}
	}
	return nil
}

// poll returns (signature, detail, harnessOnly) of the first new race block involving mast frames.
func (rl *raceLog) poll() (sig, detail string, harnessOnly int) {
	if rl == nil {
		return "", "", 0
	}
	files, _ := filepath.Glob(rl.prefix + ".*")
	sort.Strings(files)
	for _, f := range files {
		fh, err := os.Open(f)
		if err != nil {
			continue
		}
		fh.Seek(rl.offset[f], 0)
		rd := bufio.NewReader(fh)
		var block []string
		flush := func() {
			if len(block) == 0 {
				return
			}
			var fns []string
			for _, l := range block {
				if m := reRaceFrame.FindStringSubmatch(l); m != nil {
					fn := strings.TrimPrefix(m[1], "github.com/jrhy/mast.")
					if len(fns) == 0 || fns[len(fns)-1] != fn {
						fns = append(fns, fn)
					}
				}
			}
			if len(fns) == 0 {
				harnessOnly++
			} else if sig == "" {
				// first mast frame of each of the two access stacks
				var a, b string
				sec := 0
				for _, l := range block {
					if strings.Contains(l, " by goroutine ") || strings.Contains(l, " by main goroutine") {
						sec++
						continue
					}
					if m := reRaceFrame.FindStringSubmatch(l); m != nil {
						fn := strings.TrimPrefix(m[1], "github.com/jrhy/mast.")
						if sec == 1 && a == "" {
							a = fn
						} else if sec == 2 && b == "" {
							b = fn
						}
					}
				}
				pair := []string{a, b}
				sort.Strings(pair)
				sig = "C11/data-race/" + pair[0] + "+" + pair[1]
				n := len(block)
				if n > 30 {
					n = 30
				}
				detail = strings.Join(block[:n], "\n")
			}
			block = nil
		}
		for {
			line, err := rd.ReadString('\n')
			if len(line) > 0 {
				rl.offset[f] += int64(len(line))
				l := strings.TrimRight(line, "\n")
				if strings.HasPrefix(l, "WARNING: DATA RACE") {
					flush()
					block = []string{l}
				} else if strings.HasPrefix(l, "==================") {
					flush()
				} else if block != nil {
					block = append(block, l)
				}
			}
			if err != nil {
				break
			}
		}
		flush()
		fh.Close()
	}
	return sig, detail, harnessOnly
}

var theRaceLog *raceLog

// RunThreadScenario runs the clients concurrently under the scheduler, then each alone, and judges.
func RunThreadScenario(t *testing.T, sc *Scenario) *World {
	w := bareWorld(sc)
	if sc.Tape != nil {
		w.ch = NewReplayChooser(sc.Seed, sc.Tape)
	}
	if theRaceLog == nil {
		theRaceLog = newRaceLog()
	}
	theRaceLog.poll() // drain anything older
	tr, err := runThreads(sc, w.ch, -1, w.log)
	if err != nil {
		w.st.Truncated = "harness: " + err.Error()
		return w
	}
	w.st.Steps += tr.steps
	w.st.Ops += len(sc.Ops)
	w.st.Probes["binding-"+sc.Cfg.Cache]++
	w.st.Probes["yields"] += tr.yields
	w.st.OracleEvals++
	sig, detail, harnessOnly := theRaceLog.poll()
	if harnessOnly > 0 {
		w.st.Probes["harness-only-race-reports"] += harnessOnly
	}
	if tr.blockedEvents > 0 {
		w.st.Probes["client-waited-for-a-parked-peer"] += tr.blockedEvents
	}
	if sc.Extra["cancelled"] > 0 {
		w.st.Faults["client-context-cancelled"]++
	}
	if tr.stuck != "" {
		w.viol = &Violation{Prop: "C11", Sig: "C11/operation-does-not-terminate/clients-wait-for-each-other/" + sc.Cfg.Cache, Detail: tr.stuck}
		return w
	}
	if sig != "" {
		w.viol = &Violation{Prop: "C11", Sig: sig, Detail: "race detector report with mast frames while client threads operated on their own trees:\n" + detail}
		return w
	}
	if tr.fpViol != "" {
		w.viol = &Violation{Prop: "C11", Sig: "C11/shared-node-mutated/" + sc.Cfg.Cache, Detail: tr.fpViol}
		return w
	}
	// solo equivalence
	n := sc.Extra["clients"]
	for i := 0; i < n; i++ {
		if sc.Extra["cancelled"] == i+1 {
			// which of the cancelled client's own requests reach the store depends on what the
			// others left in the cache: its trace is not expected to equal its solo trace
			continue
		}
		st, err := runThreads(sc, NewChooser(1), i, newHasher())
		if err != nil {
			w.st.Truncated = "harness: " + err.Error()
			return w
		}
		a, b := tr.traces[i], st.traces[i]
		w.st.OracleEvals++
		if !sameStrs(a, b) {
			w.viol = &Violation{Prop: "C11", Sig: "C11/differs-from-solo-run/" + sc.Cfg.Cache, Detail: fmt.Sprintf("client %d behaved differently than when run alone: %s", i, firstDiff(a, b))}
			return w
		}
	}
	theRaceLog.poll() // races inside solo runs cannot involve two clients; drain
	return w
}

// subprocessRunner runs a candidate scenario in a fresh process (race reports are per-process
// de-duplicated by the detector, so in-process re-runs cannot reproduce them).
func subprocessRunner(t *testing.T, sc *Scenario) *World {
	w := bareWorld(sc)
	dir := os.Getenv("VERIF_OUT")
	if dir == "" {
		dir = os.TempDir()
	}
	path := filepath.Join(dir, fmt.Sprintf("cand-%d-%d.json", os.Getpid(), time.Now().UnixNano()))
	c := sc.Clone()
	c.Signature, c.Detail, c.LogHash = "", "", ""
	if err := c.Save(path); err != nil {
		return w
	}
	defer os.Remove(path)
	cmd := exec.Command(os.Args[0], "-test.run", "^TestVerif$", "-test.timeout", "0")
	cmd.Env = append(os.Environ(), "VERIF_MODE=replay", "VERIF_REPLAY="+path,
		fmt.Sprintf("GORACE=log_path=%s halt_on_error=0", path+".race"))
	out, _ := cmd.CombinedOutput()
	matches, _ := filepath.Glob(path + ".race*")
	for _, m := range matches {
		os.Remove(m)
	}
	s := string(out)
	if i := strings.Index(s, "REPLAY-RESULT: reproduced signature="); i >= 0 {
		rest := s[i+len("REPLAY-RESULT: reproduced signature="):]
		if j := strings.IndexAny(rest, " \n"); j > 0 {
			w.viol = &Violation{Prop: sc.Property, Sig: rest[:j], Detail: "reproduced in a fresh process"}
		}
	}
	return w
}

// RunThreadShard is the C11 shard loop.
func RunThreadShard(t *testing.T, env *ShardEnv) *ShardReport {
	rep := newShardReport(env.Prop, "threads", env.Shard, env.Tier, env.Seed)
	liveReport = rep
	start := time.Now()
	shardSeed := mixSeed(env.Seed, strSeed(env.Prop), uint64(env.Shard))
	nt := map[uint64]bool{}
	seen := map[string]bool{}
	for i := 0; ; i++ {
		if (env.MaxRuns > 0 && i >= env.MaxRuns) || time.Since(start) > env.Budget {
			break
		}
		seed := mixSeed(shardSeed, uint64(i))
		if i == 0 {
			rep.FirstSeed = seed
		}
		rep.LastSeed = seed
		sc := GenThreadScenario(seed, env.Tier)
		w := RunThreadScenario(t, sc)
		rep.Evaluations++
		rep.absorb(w.st)
		if w.st.OracleEvals > 0 {
			h := newHasher()
			cj, _ := json.Marshal(sc.Cfg)
			h.Str(string(cj))
			for _, op := range sc.Ops {
				h.Str(op.K)
				h.Int(op.T)
				h.Int(op.Key)
			}
			for _, v := range w.ch.Tape() {
				h.Int(v)
			}
			nt[h.Sum()] = true
			if len(rep.Samples) < 2 && len(sc.Ops) < 20 {
				s2 := sc.Clone()
				s2.Tape = w.ch.Tape()
				rep.Samples = append(rep.Samples, mustJSON(s2))
			}
		}
		if w.viol != nil {
			if k, ok := env.Known[w.viol.Sig]; ok {
				rep.KnownHits[w.viol.Sig]++
				rep.KnownWhat[w.viol.Sig] = k.Finding
				continue
			}
			if seen[w.viol.Sig] {
				continue
			}
			seen[w.viol.Sig] = true
			// save with the recorded tape, confirm in a fresh process, then shrink by subprocess
			full := sc.Clone()
			full.Tape = w.ch.Tape()
			full.Signature, full.Detail = w.viol.Sig, w.viol.Detail
			os.MkdirAll(env.ReplayDir, 0o755)
			path := filepath.Join(env.ReplayDir, fmt.Sprintf("%s-s%d-%x-%x.json", env.Prop, env.Shard, sc.Seed, fnv64([]byte(w.viol.Sig))&0xffffff))
			full.Save(path)
			if fw := subprocessRunner(t, full); fw.viol == nil || fw.viol.Sig != w.viol.Sig {
				os.Remove(path)
				rep.Truncated["violation-not-reproducible-in-fresh-process"]++
				continue
			}
			shrinkTries := 40
			if strings.Contains(w.viol.Sig, "operation-does-not-terminate") {
				shrinkTries = 8 // every candidate costs the full deadlock wait
			}
			small := Shrink(t, full, w.viol.Sig, func(t *testing.T, s *Scenario) *World {
				s.Tape = nil
				return subprocessRunner(t, s)
			}, shrinkTries)
			if fw := subprocessRunner(t, small); fw.viol != nil && fw.viol.Sig == w.viol.Sig && len(small.Ops) < len(full.Ops) {
				small.Signature, small.Detail, small.ShrunkFrom = w.viol.Sig, w.viol.Detail, len(full.Ops)
				small.Save(path)
			}
			rep.Violations = append(rep.Violations, ViolationReport{Property: env.Prop, Signature: w.viol.Sig, Detail: w.viol.Detail, Replay: path, Seed: sc.Seed, OpsBefore: len(full.Ops), OpsAfter: len(small.Ops)})
			if len(rep.Violations) >= 3 || strings.Contains(w.viol.Sig, "operation-does-not-terminate") {
				// (stuck clients stay behind in this process with whatever they hold: no further runs here)
				break
			}
		}
	}
	for h := range nt {
		rep.NonTrivial = append(rep.NonTrivial, h)
	}
	rep.WallS = time.Since(start).Seconds()
	return rep
}

func init() {
	extraEngines["threads"] = RunThreadShard
	extraReplayers["threads"] = RunThreadScenario
	propTable["C11"] = PropInfo{Engine: "threads", Level: "exploration", QuickS: 24, ThorS: 600,
		Rule: "one evaluation = one seeded scenario: 2-4 client goroutines, each owning trees loaded from (or cloned from a tree loaded from) two common persisted versions, run 6-40 ops (insert/delete/get/iter/seek/persist/clone/DiffIter/DiffLinks/cursor walks; diffs also against the other common version; the common parent of cloned trees may carry unsaved inserts; one client may run under a cancelled context) under the baton scheduler, which picks the running client at every Persist/NodeCache call and op boundary; oracles: race-detector reports with mast frames (binary built -race; hand-off by raw pipe syscalls is invisible to the detector), fingerprints of every pre-loaded shared node before/after, and equality of each client's API-visible trace with the trace of the same ops run alone; both bindings (lock-free frozen cache/store with private overlays; live ARC cache + locked store); non-trivial = the concurrent run completed and was judged; distinct = hash of (config, ops, schedule tape)",
		Assumptions: []string{"Go race detector (happens-before analysis of the executed accesses; its report for a given serialized execution is repeatable — checked by the determinism self-test)", "raw SYS_READ/SYS_WRITE pipe hand-off is not treated as synchronisation by the detector (spiked, see DESIGN.md 2.5)", "flush's own worker goroutines are not scheduled by this engine (C03's subject)"},
		Components: map[string][]string{
			"real": {"mast core", "flush worker pool (inline inside a client step)", "hashicorp ARC cache (live binding)"},
			"stub": {"frozen lock-free cache/store with per-client overlays", "locked SimDisk (live binding)", "baton scheduler"},
		},
	}
}
