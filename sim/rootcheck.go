package sim

import (
	"encoding/binary"
	"fmt"

	"github.com/jrhy/mast"
)

// C19: loading rejects a root that does not match the configuration.
//
// op "rootcheck" (A = root version) enumerates perturbations of the Root record,
// of the stored top node, and of the loader's configuration. Each perturbation
// falls in one of the statement's classes (by independent computation), so
// LoadMast must return a non-nil error; a panic is not an error.

type rootPerturb struct {
	name  string
	root  mast.Root
	disk  *SimDisk // perturbed copy of the disk
	cmp   func(a, b interface{}) (int, error)
	failLoad string
	cacheOK  bool // the stored node is untouched: the rejection must not depend on the node cache being cold
}

func (w *World) opRootCheck(op *Op) {
	if w.cfg.InMemory {
		return
	}
	v := w.version(op.A)
	if v == nil || v.kind != "root" {
		return
	}
	src := w.disks[v.disk]
	base := *v.root
	// control: the unperturbed root must load
	{
		d := src.Snapshot(src.prefix)
		m, r := w.loadRoot(&base, v.disk, nil, d)
		if r.bad() || m == nil {
			w.failFor("C05", "reload-fails", "control LoadMast: %s", r)
			return
		}
	}
	fm := w.cfg.Format
	top := rootLink(&base)
	var topBytes []byte
	var dn *DNode
	if top != "" {
		topBytes, _ = src.Bytes(top)
		if w.decodable() {
			var err error
			dn, err = DecodeNode(fm, topBytes)
			if err != nil {
				w.st.Truncated = "format-drift: " + err.Error()
				w.st.Skipped++
				return
			}
		}
	}
	var ps []rootPerturb
	add := func(p rootPerturb) {
		if p.disk == nil {
			p.disk = src.Snapshot(src.prefix)
		}
		ps = append(ps, p)
	}
	// 1. unknown node format
	for _, f := range []string{"v9.9unknown", "V1MARSHALER", "binary", "v1.1.6binary", "v1.1.12binary", "v1.1.4binary", "v1.1.5binary2", "v1.1.5", "v2marshaler", "v1marshaler ", "v1.1.5Binary"} {
		r := base
		r.NodeFormat = f
		add(rootPerturb{name: "unknown-format", root: r, cacheOK: true})
	}
	if top != "" && w.decodable() {
		// 1b. a known format name (or none, which means v1marshaler) that is not the one the
		// stored bytes are in: undecodable, by the independent decoder of the named format
		for _, f := range []string{FmtBinary, FmtMarshaler, ""} {
			if f == fm {
				continue
			}
			as := f
			if as == "" {
				as = FmtMarshaler
			}
			if as == fm {
				continue
			}
			if _, err := DecodeNode(as, topBytes); err != nil {
				r := base
				r.NodeFormat = f
				name := "format-name-of-the-other-format"
				if f == "" {
					name = "no-format-name-for-binary-nodes"
				}
				add(rootPerturb{name: name, root: r})
			}
		}
	}
	if top != "" {
		// 2. top node lost / load error
		{
			d := src.Snapshot(src.prefix)
			d.Delete(top)
			add(rootPerturb{name: "top-node-missing", root: base, disk: d})
			add(rootPerturb{name: "top-node-load-error", root: base, failLoad: "fail"})
		}
		// 3. top node bytes undecodable
		putBytes := func(name string, b []byte) {
			d := src.Snapshot(src.prefix)
			d.Put(top, b)
			add(rootPerturb{name: name, root: base, disk: d})
		}
		putBytes("top-node-empty-bytes", []byte{})
		if w.decodable() {
			// every truncation that the independent decoder rejects
			cuts := 0
			for c := 1; c < len(topBytes) && cuts < 12; c++ {
				// spread cut points over the node
				step := len(topBytes)/12 + 1
				if c%step != 0 && c != len(topBytes)-1 && c != 1 {
					continue
				}
				if _, err := DecodeNode(fm, topBytes[:c]); err != nil {
					putBytes("top-node-truncated", append([]byte(nil), topBytes[:c]...))
					cuts++
				}
			}
			if fm == FmtBinary && dn != nil {
				// cuts exactly on the structural boundaries: after the key section, after the value
				// section, after the link count, after each of the first links
				uvl := func(v int) int { return len(binary.AppendUvarint(nil, uint64(v))) }
				off := uvl(len(dn.Keys))
				for _, k := range dn.Keys {
					off += uvl(len(k)) + len(k)
				}
				bounds := []int{off}
				off += uvl(len(dn.Vals))
				for _, v := range dn.Vals {
					off += uvl(len(v)) + len(v)
				}
				bounds = append(bounds, off)
				off += uvl(len(dn.Links))
				bounds = append(bounds, off)
				for i, l := range dn.Links {
					if i >= 2 {
						break
					}
					off += uvl(len(l)) + len(l)
					bounds = append(bounds, off)
				}
				for _, c := range bounds {
					if c > 0 && c < len(topBytes) {
						if _, err := DecodeNode(fm, topBytes[:c]); err != nil {
							putBytes("top-node-truncated-at-section-boundary", append([]byte(nil), topBytes[:c]...))
						}
					}
				}
			}
			if fm == FmtBinary {
				// a length prefix exceeding the buffer
				b := append([]byte(nil), topBytes...)
				if len(b) >= 2 && b[0] < 0x80 {
					bad := append([]byte{b[0], 0xff, 0xff, 0x7f}, b[2:]...)
					if _, err := DecodeNode(fm, bad); err != nil {
						putBytes("top-node-length-exceeds-buffer", bad)
					}
				}
				// an entry count, link count or body length that cannot be true of any buffer of
				// this size: one more than the buffer holds, 2^45, 2^63-1, 2^63 and 2^64-1. (Counts
				// between about 2^24 and 2^44 are left out on purpose: a decoder that allocates by the
				// count before looking at the buffer would take the whole machine down with it, which
				// no in-process check survives; the values used here make such a decoder panic.)
				if dn != nil {
					uv := func(v uint64) []byte { return binary.AppendUvarint(nil, v) }
					list := func(count []byte, items [][]byte) []byte {
						out := append([]byte(nil), count...)
						for _, it := range items {
							out = append(out, uv(uint64(len(it)))...)
							out = append(out, it...)
						}
						return out
					}
					linkItems := make([][]byte, len(dn.Links))
					for i, l := range dn.Links {
						linkItems[i] = []byte(l)
					}
					huge := []uint64{uint64(len(topBytes)) + 1, 1 << 45, 1<<63 - 1, 1 << 63, 1<<64 - 1}
					for _, h := range huge {
						hv := uv(h)
						for sec := 0; sec < 3; sec++ {
							counts := [][]byte{uv(uint64(len(dn.Keys))), uv(uint64(len(dn.Vals))), uv(uint64(len(linkItems)))}
							counts[sec] = hv
							bad := append(append(list(counts[0], dn.Keys), list(counts[1], dn.Vals)...), list(counts[2], linkItems)...)
							if _, err := DecodeNode(fm, bad); err != nil {
								putBytes("top-node-count-exceeds-buffer/"+[]string{"keys", "values", "links"}[sec], bad)
							}
						}
						if len(dn.Keys) > 0 {
							// the first key's body length
							bad := append([]byte(nil), uv(uint64(len(dn.Keys)))...)
							bad = append(bad, hv...)
							bad = append(bad, topBytes[len(uv(uint64(len(dn.Keys)))):]...)
							if _, err := DecodeNode(fm, bad); err != nil {
								putBytes("top-node-body-length-exceeds-buffer", bad)
							}
						}
					}
				}
			} else {
				putBytes("top-node-json-garbage", []byte(`{"Key":[1,2,"Value":}`))
				putBytes("top-node-json-garbage", []byte(`not json at all`))
			}
		}
		// 4. crafted top nodes (independent encoder), stored under their true name
		if dn != nil && w.decodable() {
			craft := func(name string, keys, vals [][]byte, links []string) {
				b := EncodeNode(fm, keys, vals, links)
				nn := nodeName(b)
				d := src.Snapshot(src.prefix)
				d.Put(nn, b)
				r := base
				r.Link = &nn
				add(rootPerturb{name: name, root: r, disk: d})
			}
			n := len(dn.Keys)
			someLink := top // any existing node name will do as a child name
			if n >= 1 {
				// entry/link count mismatch: n keys with n+2 links, and with n links (n>=1 so the count is non-zero)
				links := make([]string, n+2)
				for i := range links {
					links[i] = someLink
				}
				craft("link-count-mismatch", dn.Keys, dn.Vals, links)
				if n >= 2 {
					craft("link-count-mismatch", dn.Keys, dn.Vals, links[:n])
				}
				// key/value count mismatch
				craft("value-count-mismatch", dn.Keys, dn.Vals[:n-1], dn.Links)
			}
			if n >= 2 {
				for _, pos := range []int{0, n - 2} {
					keys := append([][]byte(nil), dn.Keys...)
					keys[pos], keys[pos+1] = keys[pos+1], keys[pos]
					craft(fmt.Sprintf("keys-swapped/at-%s", posName(pos, n)), keys, dn.Vals, dn.Links)
					dup := append([][]byte(nil), dn.Keys...)
					dup[pos+1] = dup[pos]
					craft(fmt.Sprintf("duplicate-key/at-%s", posName(pos, n)), dup, dn.Vals, dn.Links)
				}
				// 5. loader KeyCompare reversed / constant
				baseCmp := mast.DefaultKeyCompare(w.cfg.MarshalFn())
				if w.cb != nil && w.cb.KeyCompare != nil {
					baseCmp = w.cb.KeyCompare // the order this tree was built under
				}
				add(rootPerturb{name: "loader-keycompare-reversed", root: base, cacheOK: true, cmp: func(a, b interface{}) (int, error) {
					c, err := baseCmp(a, b)
					return -c, err
				}})
				add(rootPerturb{name: "loader-keycompare-constant", root: base, cacheOK: true, cmp: func(a, b interface{}) (int, error) { return 0, nil }})
				// a coarser order than the one the tree was written under: two adjacent keys of the top
				// node (not its first two) compare equal, everything else as before
				for _, pos := range []int{1, n - 2} {
					if pos < 1 || pos+1 >= n {
						continue
					}
					ia, oka := w.keyIndexFromBody(dn.Keys[pos])
					ib, okb := w.keyIndexFromBody(dn.Keys[pos+1])
					if !oka || !okb {
						continue
					}
					sa, sb := keyString(w.kd.Key(ia)), keyString(w.kd.Key(ib))
					add(rootPerturb{name: "loader-keycompare-coarser/at-" + posName(pos-1, n-1), root: base, cacheOK: true, cmp: func(a, b interface{}) (int, error) {
						ka, kb := keyString(a), keyString(b)
						if (ka == sa && kb == sb) || (ka == sb && kb == sa) {
							return 0, nil
						}
						return baseCmp(a, b)
					}})
				}
			}
			// 6. recorded height / branch factor under which some top key's layer < height
			if n >= 1 {
				minLayerAt := func(bf uint) int {
					min := 1 << 30
					for _, kb := range dn.Keys {
						ki, ok := w.keyIndexFromBody(kb)
						if !ok {
							return -1
						}
						l := IndepLayerM(w.kd.Key(ki), bf, w.cfg.MarshalFn())
						if l < min {
							min = l
						}
					}
					return min
				}
				for _, dh := range []int{1, 2, 5} {
					h := int(base.Height) + dh
					if h > 255 {
						continue
					}
					if ml := minLayerAt(base.BranchFactor); ml >= 0 && ml < h {
						r := base
						r.Height = uint8(h)
						add(rootPerturb{name: "recorded-height-above-key-layer", root: r, cacheOK: true})
					}
				}
				if base.Height > 0 {
					for _, bf := range []uint{2, 3, 4, 5, 7, 16, 17} {
						if bf == base.BranchFactor {
							continue
						}
						if ml := minLayerAt(bf); ml >= 0 && ml < int(base.Height) {
							r := base
							r.BranchFactor = bf
							add(rootPerturb{name: "recorded-branch-factor-changes-layers", root: r, cacheOK: true})
						}
					}
				}
			}
		}
	}
	// a shared cache warmed by a correct load of the same root (as a long-running process has)
	var warm mast.NodeCache
	if w.cache != nil {
		if _, r := w.loadRoot(&base, v.disk, asNodeCache(w.cache), src.Snapshot(src.prefix)); !r.bad() {
			warm = asNodeCache(w.cache)
		}
	}
	for _, p := range ps {
		// every perturbation: without cache, and twice with one fresh private cache (a rejected
		// node must not be served from the cache on the retry); perturbations that leave the
		// stored node intact: also with the warm shared cache
		fresh := mast.NewNodeCache(64)
		caches := []mast.NodeCache{nil, fresh, fresh}
		hows := []string{"cold", "fresh-cache", "fresh-cache-retry"}
		if p.cacheOK && warm != nil {
			caches = append(caches, warm)
			hows = append(hows, "warm-cache")
		}
		for ci, cache := range caches {
			how := hows[ci]
			if how == "warm-cache" {
				w.st.Probes["perturb-with-warm-cache"]++
			}
			if how == "fresh-cache-retry" {
				w.st.Probes["perturb-retried-with-same-cache"]++
			}
			w.st.OracleEvals++
			w.st.Probes["perturb-"+firstSeg(p.name)]++
			cb := w.cb
			if p.cmp != nil {
				cb = &Callbacks{KeyCompare: p.cmp}
				if w.cb != nil {
					cb.Marshal, cb.Unmarshal = w.cb.Marshal, w.cb.Unmarshal
				}
			}
			if p.failLoad != "" {
				p.disk.BeginCall()
				p.disk.FailLoadAt, p.disk.FailLoadKind = 1, p.failLoad
				w.st.Faults["load-"+p.failLoad]++
			}
			var m *mast.Mast
			root := p.root
			r := guard(func() error {
				var err error
				m, err = root.LoadMast(ctx, w.cfg.RemoteConfig(w.kd, w.vd, p.disk, cache, cb))
				return err
			})
			if r.panicked != nil {
				w.failFor("C19", p.name+"/panics/"+fm+"/"+how, "LoadMast (%s) of a root with %s panicked instead of returning an error: %v", how, p.name, r.panicked)
				return
			}
			if r.err == nil {
				w.failFor("C19", p.name+"/accepted/"+fm+"/"+how, "LoadMast (%s) of a root with %s returned a tree (size %d) and no error", how, p.name, m.Size())
				return
			}
		}
	}
	w.st.Probes["rootcheck"]++
}

func posName(pos, n int) string {
	if pos == 0 {
		return "front"
	}
	return "back"
}

func firstSeg(s string) string {
	for i := 0; i < len(s); i++ {
		if s[i] == '/' {
			return s[:i]
		}
	}
	return s
}

func init() {
	profiles["C19"] = map[string]int{"ins": 30, "del": 8, "persist": 8, "rootcheck": 10, "bulk": 3, "fork": 1}
	propTable["C19"] = PropInfo{Engine: "history", Level: "fault_enumeration", QuickS: 20, ThorS: 420,
		Rule: "one evaluation = one seeded history ending in rootcheck ops; each rootcheck enumerates, for one persisted root, every perturbation kind (unknown format names incl. version-like ones, the other known format's name or none for these bytes, truncation at the structural boundaries of a binary node, count and length fields no buffer can satisfy, a loader comparator coarser than the writer's, unknown format x3, top node missing / load error, empty bytes, every sampled truncation rejected by the independent decoder, oversized length prefix or JSON garbage, crafted nodes with link/value count mismatch, swapped and duplicate keys at front and back, reversed and constant loader KeyCompare, recorded height / branch factor under which a top key's independently computed layer is below the height) and demands an error from LoadMast; non-trivial = at least one perturbed load judged; distinct = hash of (config, op sequence)",
	}
}
