package sim

import (
	"context"
	"encoding/json"
	"errors"
	"fmt"
	"os"
	"reflect"
	"sort"
	"strings"

	"github.com/jrhy/mast"
)

// ---- store monitor: determinism table (C08 clause 3) and canonical-encoding monitor (C14) ----

// monitorTripped reports (and files) a write-monitor violation of the given disk before
// anything it stored is read back.
func (w *World) monitorTripped(d *SimDisk) bool {
	if len(d.MonViol) == 0 {
		return false
	}
	mv := d.MonViol[0]
	d.MonViol = nil
	if mv.Clause == "same-content-different-bytes" {
		// the stored bytes are still what their name says: other properties' oracles can go on
		return w.softFor("C08", mv.Clause, "%s", mv.Detail)
	}
	w.failFor("C08", mv.Clause, "%s", mv.Detail)
	return true
}

func (w *World) decodable() bool {
	return w.cfg.Format == FmtBinary || w.cfg.Marshaler == "json" || w.cfg.Marshaler == ""
}

func (w *World) installStoreMonitor(d *SimDisk) {
	d.onStore = func(name string, b []byte) {
		if !w.decodable() {
			return
		}
		dn, err := DecodeNode(w.cfg.Format, b)
		if err != nil {
			if w.prop == "C14" {
				d.MonViol = append(d.MonViol, MonitorViolation{"stored-node-not-in-published-format", fmt.Sprintf("node %s (%d bytes) is not decodable as %s: %v", name, len(b), w.cfg.Format, err)})
			}
			return
		}
		// logical content: key bodies, value bodies, child names
		var sb strings.Builder
		for _, k := range dn.Keys {
			fmt.Fprintf(&sb, "k%d:%s", len(k), k)
		}
		for _, v := range dn.Vals {
			fmt.Fprintf(&sb, "v%d:%s", len(v), v)
		}
		for _, l := range dn.Links {
			fmt.Fprintf(&sb, "l:%s,", l)
		}
		logical := sb.String()
		h := fnv64(b)
		if prev, ok := w.detTable[logical]; ok && prev != h {
			d.MonViol = append(d.MonViol, MonitorViolation{"same-content-different-bytes", fmt.Sprintf("node %s: a node with the same entries and child names was written earlier with different bytes", name)})
		}
		w.detTable[logical] = h
		if w.prop == "C14" {
			want := EncodeNode(w.cfg.Format, dn.Keys, dn.Vals, dn.Links)
			if string(want) != string(b) {
				d.MonViol = append(d.MonViol, MonitorViolation{"bytes-differ-from-published-format", fmt.Sprintf("node %s: bytes written differ from the independent encoder's output for the same entries and links (%d vs %d bytes)", name, len(b), len(want))})
			}
		}
	}
}

// ---- judgements at persist time: C04, C08(4), C09, C13 ----

func (w *World) keyIndexFromBody(body []byte) (int, bool) {
	like := w.kd.Like()
	pv := newPtrLike(like)
	if err := w.cfg.UnmarshalFn()(body, pv); err != nil {
		return -1, false
	}
	return w.kd.Index(derefPtr(pv))
}

func (w *World) layerOf(k int) int {
	l, err := w.layerFn(w.kd.Key(k), w.cfg.BF)
	if err != nil {
		return 0
	}
	return int(l)
}

func (w *World) contentsHash(m *Model) string {
	h := newHasher()
	for _, s := range w.modelObs(m) {
		h.Str(s)
	}
	return fmt.Sprintf("%x/%d", h.Sum(), m.Len())
}

func rootLink(r *mast.Root) string {
	if r == nil || r.Link == nil {
		return ""
	}
	return *r.Link
}

func (w *World) walk(root *mast.Root, d int) (*WalkResult, error) {
	disk := w.disks[d]
	return WalkPersisted(func(n string) ([]byte, bool) { return disk.Bytes(n) }, w.cfg.Format, rootLink(root), int(root.Height),
		w.keyIndexFromBody, w.kd.Rank, w.layerOf)
}

func (w *World) judgePersist(op *Op, t *Tree, root *mast.Root, reach []string, stored []string, wasDirty bool) {
	n := t.model.Len()
	switch w.prop {
	case "C08":
		w.st.OracleEvals++
		ch := w.contentsHash(t.model)
		name := rootLink(root)
		if prev, ok := w.rootReg[name]; ok && prev != ch {
			w.fail("same-root-name-different-contents", "root name %q returned for two different contents", name)
			return
		}
		w.rootReg[name] = ch
		if len(t.modKeys) == 0 && t.baseRoot != nil && rootLink(t.baseRoot) != name {
			w.fail("repersist-unmodified-different-name", "re-persisting an unmodified tree returned %q, before %q", name, rootLink(t.baseRoot))
			return
		}
	case "C09", "C04":
		if !w.decodable() {
			return
		}
		w.st.OracleEvals++
		wr, err := w.walk(root, t.disk)
		if err != nil {
			// format drift / undecodable: inconclusive for structure oracles, not a violation
			w.st.Truncated = "format-drift: " + err.Error()
			w.st.Skipped++
			return
		}
		if w.prop == "C09" {
			if len(wr.Issues) > 0 {
				is := wr.Issues[0]
				w.fail("shape/"+is.Clause, "persisted version (height %d, size %d): %s", root.Height, root.Size, is.Detail)
				return
			}
			if wr.Entries != int(root.Size) {
				w.fail("shape/root-size", "Root.Size=%d but %d entries are reachable from the root", root.Size, wr.Entries)
				return
			}
			if rootLink(root) == "" && root.Size != 0 {
				w.fail("shape/root-size", "Root.Size=%d with no root link", root.Size)
				return
			}
			if wr.Root != nil && len(wr.Root.KeyIx) == 0 && len(wr.Root.D.Links) == 1 {
				w.st.Probes["keyless-top-node"]++
			}
			return
		}
		if t.unsure {
			return
		}
		// C04 oracle A: the unique reference tree
		ref := BuildRef(t.model.Entries(), w.layerOf, w.cfg.BF)
		pred := w.sizePredicate(n)
		if int(root.Height) != ref.H {
			w.fail("canonical/height/"+pred, "Root.Height=%d, reference height for %d entries (bf %d) is %d", root.Height, n, w.cfg.BF, ref.H)
			return
		}
		if int(root.Size) != n {
			w.fail("canonical/size", "Root.Size=%d, entries=%d", root.Size, n)
			return
		}
		if n == 0 && rootLink(root) != "" {
			w.fail("canonical/empty-has-link", "empty tree persisted with a root link %q", rootLink(root))
			return
		}
		if s := CompareShape(wr.Root, ref.Root); s != "" {
			w.fail("canonical/shape", "persisted shape differs from the reference tree: %s", s)
			return
		}
		// oracle B within the run: equal contents => identical root
		ch := w.contentsHash(t.model)
		key := "c:" + ch
		sig := fmt.Sprintf("%s|%d|%d", rootLink(root), root.Height, root.Size)
		if prev, ok := w.rootReg[key]; ok && prev != sig {
			w.fail("canonical/twin-roots-differ", "same contents persisted as %s earlier and %s now", prev, sig)
			return
		}
		w.rootReg[key] = sig
	case "C14":
		if !w.decodable() || w.cfg.Marshaler == "gob" || w.cfg.CmpScale != 0 {
			return
		}
		w.st.OracleEvals++
		// the whole persisted tree is predicted independently: layers by the harness's CRC-64 /
		// divisibility rule (over the configured marshaler's bytes for marshal-layered keys), shape
		// by the reference builder, bytes by the independent encoder, names by the independent BLAKE2b
		indep := func(k int) int { return IndepLayerM(w.kd.Key(k), w.cfg.BF, w.cfg.MarshalFn()) }
		ref := BuildRef(t.model.Entries(), indep, w.cfg.BF)
		if int(root.Height) != ref.H {
			// not the canonical height under the published layer rule: either the layer function
			// drifted (then keys sit at wrong levels, checked next) or canonical form is broken (C04's matter)
			wr, err := WalkPersisted(func(nm string) ([]byte, bool) { return w.disks[t.disk].Bytes(nm) }, w.cfg.Format, rootLink(root), int(root.Height), w.keyIndexFromBody, w.kd.Rank, indep)
			if err == nil {
				for _, is := range wr.Issues {
					if is.Clause == "key-layer" {
						w.fail("key-level-disagrees-with-published-layer-rule", "%s", is.Detail)
						return
					}
				}
			}
			return
		}
		marshal := w.cfg.MarshalFn()
		kbody := func(k int) []byte { b, _ := marshal(w.kd.Key(k)); return b }
		vbody := func(v int) []byte { b, _ := marshal(w.vd.Val(v)); return b }
		ref.Encode(w.cfg.Format, kbody, vbody)
		if ref.RootName() != rootLink(root) {
			// locate the first differing node for the report
			wr, err := WalkPersisted(func(nm string) ([]byte, bool) { return w.disks[t.disk].Bytes(nm) }, w.cfg.Format, rootLink(root), int(root.Height), w.keyIndexFromBody, w.kd.Rank, indep)
			if err != nil {
				w.fail("stored-node-not-in-published-format", "%v", err)
				return
			}
			for _, is := range wr.Issues {
				if is.Clause == "key-layer" {
					w.fail("key-level-disagrees-with-published-layer-rule", "%s", is.Detail)
					return
				}
			}
			if s := CompareShape(wr.Root, ref.Root); s != "" {
				return // shape differs although layers agree: canonical form is C04's matter
			}
			w.fail("root-name-differs-from-independent-prediction", "persisted root %q, the independent encoder/hash predict %q for the same entries, layers and shape (format %s)", rootLink(root), ref.RootName(), w.cfg.Format)
			return
		}
		w.st.Probes["root-name-predicted-independently"]++
	case "C13":
		w.st.OracleEvals++
		// with the real file store mirrored behind the disk: it keeps nothing but nodes that
		// were passed to Store (no scratch copies left behind by completed, uncrashed writes)
		if t.disk < len(w.mirrorDirs) && w.disks[t.disk].mirror != nil {
			d := w.disks[t.disk]
			if d.MirrorErr != nil {
				w.failFor("C18", "store-fails/file", "file store behind the disk failed: %v", d.MirrorErr)
				return
			}
			ents, _ := os.ReadDir(w.mirrorDirs[t.disk])
			for _, en := range ents {
				if !d.Has(en.Name()) {
					w.fail("file-store-left-garbage", "after MakeRoot the file store's directory holds %q, which is not a node that was stored (%d files, %d nodes stored)", en.Name(), len(ents), d.Len())
					return
				}
			}
			w.st.Probes["file-store-directory-inspected"]++
		}
		reachSet := map[string]bool{}
		for _, r := range reach {
			reachSet[r] = true
		}
		for _, s := range stored {
			if !reachSet[s] {
				w.fail("wrote-garbage", "MakeRoot stored node %s which is not reachable from the returned root (%d stored, %d reachable)", s, len(stored), len(reach))
				return
			}
		}
		if len(t.modKeys) == 0 && t.base != nil {
			kind := "loaded-or-persisted"
			if t.baseRoot == nil {
				kind = "never-populated"
			}
			if len(stored) != 0 {
				w.fail("unmodified-but-wrote/"+kind, "nothing was modified since the base version but MakeRoot stored %d node(s)", len(stored))
				return
			}
			if rootLink(root) != rootLink(t.baseRoot) {
				w.fail("unmodified-but-different-root/"+kind, "nothing was modified but root %q != base root %q", rootLink(root), rootLink(t.baseRoot))
				return
			}
			w.st.Probes["persist-unmodified"]++
		}
		if t.baseRoot != nil && !t.heightChanged() && int(root.Height) == t.baseHeight && w.decodable() {
			wr, err := w.walk(t.baseRoot, t.disk)
			if err == nil {
				mods := make([]int, 0, len(t.modKeys))
				for k := range t.modKeys {
					mods = append(mods, w.kd.Rank(k))
				}
				sort.Ints(mods)
				for _, s := range stored {
					if !wr.Reach[s] {
						continue
					}
					rg := wr.Ranges[s]
					hit := false
					for _, r := range mods {
						// inclusive of the bounding separator keys: deleting (or re-inserting) a
						// separator necessarily merges (re-splits) the two nodes it bounds
						if r >= rg[0] && r <= rg[1] {
							hit = true
							break
						}
					}
					if !hit {
						w.fail("rewrote-untouched-node", "MakeRoot re-stored node %s of the base version although none of the %d modified keys lies in its key range", s, len(mods))
						return
					}
					w.st.Probes["rewrote-base-node-with-modified-key"]++
				}
				budget := (2*int(root.Height) + 2) * len(t.modKeys)
				if len(stored) > budget {
					w.fail("write-budget", "MakeRoot stored %d nodes for %d modified keys at height %d (budget %d)", len(stored), len(t.modKeys), root.Height, budget)
					return
				}
				w.st.Probes["incremental-judged"]++
			}
		}
	}
}

func (t *Tree) heightChanged() bool { return t.hChanged }

func (w *World) sizePredicate(n int) string {
	// structural predicate for signatures: is n exactly a power of bf, one above, or neither
	p := 1
	for p < n {
		p *= int(w.cfg.BF)
	}
	switch {
	case n == 0:
		return "n=0"
	case n == 1:
		return "n=1"
	case p == n:
		return "n=bf^k"
	case p/int(w.cfg.BF)+1 == n || n == 2:
		return "n=bf^k+1"
	}
	return "n=other"
}

// ---- canonical-form twin histories (C04 oracle B) ----

func (w *World) opCanon(op *Op) {
	t := w.tree(op.T)
	if t == nil || w.cfg.InMemory || t.baseRoot == nil || len(t.modKeys) != 0 {
		return
	}
	g := NewGen(uint64(op.N)*7919 + 13)
	// target entries
	target := t.model.Entries()
	inModel := map[int]bool{}
	for _, e := range target {
		inModel[e.K] = true
	}
	var extras []int
	nExtra := g.Intn(7)
	for i := 0; i < nExtra*4 && len(extras) < nExtra; i++ {
		k := g.Intn(w.cfg.U)
		if !inModel[k] {
			inModel[k] = true
			extras = append(extras, k)
		}
	}
	// build plan: inserts of target ∪ extras in shuffled order; deletes of extras interleaved after their insert
	type step struct {
		del bool
		k   int
		v   int
	}
	var plan []step
	for _, e := range target {
		plan = append(plan, step{false, e.K, e.V})
	}
	for _, k := range extras {
		plan = append(plan, step{false, k, g.Intn(50)})
	}
	for i := len(plan) - 1; i > 0; i-- {
		j := g.Intn(i + 1)
		plan[i], plan[j] = plan[j], plan[i]
	}
	// wrong-then-right values for some target keys (update path)
	var pre []step
	for _, e := range target {
		if g.Chance(1, 5) {
			pre = append(pre, step{false, e.K, e.V + 1000})
		}
	}
	plan = append(pre, plan...)
	// deletes of extras at the end in random order (and re-assert target values)
	for i := len(extras) - 1; i > 0; i-- {
		j := g.Intn(i + 1)
		extras[i], extras[j] = extras[j], extras[i]
	}
	d := t.disk
	var cache mast.NodeCache = asNodeCache(w.cache)
	otherProcess := g.Chance(1, 2)
	var disk *SimDisk = w.disks[d]
	if otherProcess {
		disk = NewSimDisk("sim://twin")
		w.installStoreMonitor(disk)
		cache = nil
		w.st.Probes["twin-in-fresh-process"]++
	}
	var m *mast.Mast
	r := guard(func() error {
		var err error
		m, err = w.cfg.NewRoot().LoadMast(ctx, w.cfg.RemoteConfig(w.kd, w.vd, disk, cache, w.cb))
		return err
	})
	if r.bad() {
		w.failFor("C01", "newtree-fails", "twin: %s", r)
		return
	}
	tm := NewModel(w.kd)
	apply := func(s step) bool {
		var r callResult
		if s.del {
			v, _ := tm.Get(s.k)
			r = guard(func() error { return m.Delete(ctx, w.kd.Key(s.k), w.vd.Val(v)) })
			tm.Del(s.k)
		} else {
			r = guard(func() error { return m.Insert(ctx, w.kd.Key(s.k), w.vd.Val(s.v)) })
			tm.Put(s.k, s.v)
		}
		if r.bad() {
			w.failFor("C01", "twin-op-fails", "twin history op failed: %s", r)
			return false
		}
		return true
	}
	midPersist := g.Chance(1, 2)
	for i, s := range plan {
		if !apply(s) {
			return
		}
		if midPersist && i == len(plan)/2 {
			// persist and reload mid-way
			fr := w.schedMakeRoot(m, disk, 0, 0, "", false)
			if w.monitorTripped(disk) {
				return
			}
			if fr.res.bad() || fr.deadlock {
				w.failFor("C01", "persist-fails", "twin mid persist: %s", fr.res)
				return
			}
			var m2 *mast.Mast
			r := guard(func() error {
				var err error
				m2, err = fr.root.LoadMast(ctx, w.cfg.RemoteConfig(w.kd, w.vd, disk, cache, w.cb))
				return err
			})
			if r.bad() {
				w.failFor("C05", "reload-fails", "twin reload: %s", r)
				return
			}
			m = m2
			w.st.Probes["twin-mid-reload"]++
		}
	}
	for _, k := range extras {
		if !apply(step{del: true, k: k}) {
			return
		}
	}
	for _, e := range target {
		if v, _ := tm.Get(e.K); w.vd.Distinct(v, e.V) {
			if !apply(step{false, e.K, e.V}) {
				return
			}
		}
	}
	// guard: twin's contents equal the target (else unrelated)
	obs, r := w.observe(m)
	if r.bad() || !sameStrs(obs, w.modelObs(t.model)) {
		w.failFor("C01", "twin-contents-mismatch", "twin history did not reach the target contents: %s %s", r, firstDiff(obs, w.modelObs(t.model)))
		return
	}
	fr := w.schedMakeRoot(m, disk, 0, 0, "", false)
	if w.monitorTripped(disk) {
		return
	}
	if fr.res.bad() || fr.deadlock {
		w.failFor("C01", "persist-fails", "twin persist: %s", fr.res)
		return
	}
	w.st.OracleEvals++
	a, b := t.baseRoot, fr.root
	if len(extras) > 0 {
		w.st.Probes["twin-with-deletes"]++
	}
	if rootLink(a) != rootLink(b) || a.Height != b.Height || a.Size != b.Size {
		how := "insert-only"
		if len(extras) > 0 {
			how = "with-deletes"
		}
		w.failFor("C04", "canonical/twin-roots-differ/"+how+"/"+w.sizePredicate(t.model.Len()),
			"same %d entries: tree root {%q h=%d size=%d}, twin history (%d extra keys deleted, mid-reload=%v, fresh-process=%v) root {%q h=%d size=%d}",
			t.model.Len(), rootLink(a), a.Height, a.Size, len(extras), midPersist, otherProcess, rootLink(b), b.Height, b.Size)
	}
}

// ---- the same entries at another branch factor, in the same process (C09 / C04 / C14) ----

// opReBF rebuilds tree T's entries in a fresh tree with another branch factor (op.N), persists it
// and judges the result with the layers of the published rule at that branch factor. Anything
// the library remembers about a key from the first branch factor must not leak into the second.
func (w *World) opReBF(op *Op) {
	t := w.tree(op.T)
	if t == nil || w.cfg.InMemory || t.unsure || !w.decodable() || w.cfg.Marshaler != "json" || op.N < 2 || uint(op.N) == w.cfg.BF {
		return
	}
	if !w.sanity(t, "pre-rebf") {
		return
	}
	bf := uint(op.N)
	cfg2 := w.cfg
	cfg2.BF = bf
	disk := NewSimDisk("sim://rebf")
	var m *mast.Mast
	r := guard(func() error {
		var err error
		m, err = cfg2.NewRoot().LoadMast(ctx, cfg2.RemoteConfig(w.kd, w.vd, disk, nil, w.cb))
		if err != nil {
			return err
		}
		for _, e := range t.model.Entries() {
			if err := m.Insert(ctx, w.kd.Key(e.K), w.vd.Val(e.V)); err != nil {
				return err
			}
		}
		return nil
	})
	if r.bad() {
		w.failFor("C01", "insert-fails", "rebuilding at branch factor %d: %s", bf, r)
		return
	}
	fr := w.schedMakeRoot(m, disk, 0, 0, "", false)
	if w.monitorTripped(disk) {
		return
	}
	if fr.res.bad() || fr.deadlock {
		w.failFor("C01", "persist-fails", "persist at branch factor %d: %s", bf, fr.res)
		return
	}
	root := fr.root
	indep := func(k int) int { return IndepLayerM(w.kd.Key(k), bf, w.cfg.MarshalFn()) }
	wr, err := WalkPersisted(func(nm string) ([]byte, bool) { return disk.Bytes(nm) }, w.cfg.Format, rootLink(root), int(root.Height), w.keyIndexFromBody, w.kd.Rank, indep)
	if err != nil {
		w.st.Truncated = "format-drift: " + err.Error()
		w.st.Skipped++
		return
	}
	w.st.OracleEvals++
	w.st.Probes["rebuilt-at-another-branch-factor"]++
	switch w.prop {
	case "C09":
		if len(wr.Issues) > 0 {
			is := wr.Issues[0]
			w.fail("shape/"+is.Clause+"/second-branch-factor", "the same entries rebuilt in this process at branch factor %d (first used at %d): %s", bf, w.cfg.BF, is.Detail)
			return
		}
		if wr.Entries != int(root.Size) {
			w.fail("shape/root-size/second-branch-factor", "Root.Size=%d but %d entries reachable (branch factor %d)", root.Size, wr.Entries, bf)
		}
	case "C04", "C14":
		ref := BuildRef(t.model.Entries(), indep, bf)
		if int(root.Height) != ref.H {
			w.failFor(w.prop, "height-at-second-branch-factor", "entries rebuilt at branch factor %d: Root.Height=%d, the published layer rule gives height %d", bf, root.Height, ref.H)
			return
		}
		if s := CompareShape(wr.Root, ref.Root); s != "" {
			w.failFor(w.prop, "shape-at-second-branch-factor", "entries rebuilt at branch factor %d differ from the reference tree: %s", bf, s)
			return
		}
		if w.prop == "C14" && w.cfg.CmpScale == 0 {
			kbody := func(k int) []byte { b, _ := json.Marshal(w.kd.Key(k)); return b }
			vbody := func(v int) []byte { b, _ := json.Marshal(w.vd.Val(v)); return b }
			ref.Encode(w.cfg.Format, kbody, vbody)
			if ref.RootName() != rootLink(root) {
				w.fail("root-name-differs-from-independent-prediction/second-branch-factor", "entries rebuilt at branch factor %d: root %q, predicted %q", bf, rootLink(root), ref.RootName())
			}
		}
	}
}

// ---- entry diff (C06) ----

func (w *World) diffRec(kind string, k, oldV, newV interface{}) string {
	ki, ok := w.kd.Index(k)
	ks := fmt.Sprintf("%d", ki)
	if !ok {
		ks = "?" + keyString(k)
	}
	switch kind {
	case "add":
		return fmt.Sprintf("add %s new=%s", ks, valRepr(newV))
	case "remove":
		return fmt.Sprintf("remove %s old=%s", ks, valRepr(oldV))
	}
	return fmt.Sprintf("change %s old=%s new=%s", ks, valRepr(oldV), valRepr(newV))
}

func (w *World) expectedDiff(old, nw *Model) []string {
	var out []string
	for _, d := range ModelDiff(old, nw, w.vd) {
		switch d.Type {
		case "add":
			out = append(out, w.diffRec("add", w.kd.Key(d.K), nil, w.vd.Val(d.NewV)))
		case "remove":
			out = append(out, w.diffRec("remove", w.kd.Key(d.K), w.vd.Val(d.OldV), nil))
		default:
			out = append(out, w.diffRec("change", w.kd.Key(d.K), w.vd.Val(d.OldV), w.vd.Val(d.NewV)))
		}
	}
	return out
}

var errCallback = errors.New("sim: callback says no")

func (w *World) opDiff(op *Op) {
	oldM, oldModel, oldKind, ok := w.handle(op.A)
	if !ok || w.stopped() {
		return
	}
	newM, newModel, newKind, ok := w.handle(op.B)
	if !ok || w.stopped() || newM == nil {
		return
	}
	// guard: both sides' actual contents equal their models, else the diff oracle is not evaluable
	if oldM != nil {
		obs, r := w.observe(oldM)
		if r.bad() || !sameStrs(obs, w.modelObs(oldModel)) {
			w.failFor("C01", "contents-mismatch/pre-diff", "old side: %s %s", r, firstDiff(obs, w.modelObs(oldModel)))
			return
		}
	}
	obs, r := w.observe(newM)
	if r.bad() || !sameStrs(obs, w.modelObs(newModel)) {
		w.failFor("C01", "contents-mismatch/pre-diff", "new side: %s %s", r, firstDiff(obs, w.modelObs(newModel)))
		return
	}
	want := w.expectedDiff(oldModel, newModel)
	sides := sidePredicate(oldModel, oldKind) + "-vs-" + sidePredicate(newModel, newKind)
	w.st.OracleEvals++
	if len(want) > 0 {
		w.st.Probes["diff-nonempty"]++
	}
	// callback interface
	var got []string
	stop := op.N
	cbErrAt := 0
	if op.F == "err" {
		cbErrAt = op.N
		stop = 0
	}
	calls := 0
	rr := guard(func() error {
		return newM.DiffIter(ctx, oldM, func(added, removed bool, key, addedValue, removedValue interface{}) (bool, error) {
			calls++
			kind := "change"
			if added && removed {
				kind = "add+remove?"
			} else if added {
				kind = "add"
			} else if removed {
				kind = "remove"
			}
			got = append(got, w.diffRec(kind, key, removedValue, addedValue))
			if cbErrAt > 0 && calls == cbErrAt {
				// the error is what counts, whatever keepGoing says alongside it
				return op.Val%2 == 0, errCallback
			}
			if stop > 0 && calls >= stop {
				return false, nil
			}
			return true, nil
		})
	})
	if rr.panicked != nil {
		w.failFor("C06", "diffiter-panics/"+sides, "DiffIter: %s", rr)
		return
	}
	wantCB := want
	switch {
	case cbErrAt > 0 && len(want) >= cbErrAt:
		wantCB = want[:cbErrAt]
		if rr.err == nil || !errors.Is(rr.err, errCallback) {
			w.failFor("C06", "callback-error-not-returned", "callback failed at call %d but DiffIter returned %v", cbErrAt, rr.err)
			return
		}
	case stop > 0 && len(want) > stop:
		wantCB = want[:stop]
		if rr.err != nil {
			w.failFor("C06", "stop-returns-error", "callback said stop after %d; DiffIter returned %v", stop, rr.err)
			return
		}
	default:
		if rr.err != nil {
			w.failFor("C06", "diffiter-fails/"+sides, "DiffIter(%s): %s", sides, rr)
			return
		}
	}
	if !sameStrs(got, wantCB) {
		w.failFor("C06", "diffiter-wrong/"+sides, "DiffIter(%s) stop=%d: %s", sides, stop, firstDiff(got, wantCB))
		return
	}
	// two persisted versions held in two different stores (each store holds only its own version)
	if oldKind == "root" && newKind == "root" && stop == 0 && cbErrAt == 0 {
		va, vb := w.version(op.A), w.version(op.B)
		if va != nil && vb != nil {
			mk := func(v *Version, prefix string) (*mast.Mast, bool) {
				names, _, missing, r := w.reachByObservation(v.root, v.disk)
				if r.bad() || len(missing) > 0 {
					return nil, false
				}
				iso := NewSimDisk(prefix)
				for _, n := range names {
					b, _ := w.disks[v.disk].Bytes(n)
					iso.Put(n, b)
				}
				m, r := w.loadRoot(v.root, v.disk, nil, iso)
				return m, !r.bad()
			}
			om, ok1 := mk(va, "sim://peer-old")
			nm, ok2 := mk(vb, "sim://peer-new")
			if ok1 && ok2 {
				var gotX []string
				rx := guard(func() error {
					return nm.DiffIter(ctx, om, func(added, removed bool, key, addedValue, removedValue interface{}) (bool, error) {
						kind := "change"
						if added {
							kind = "add"
						} else if removed {
							kind = "remove"
						}
						gotX = append(gotX, w.diffRec(kind, key, removedValue, addedValue))
						return true, nil
					})
				})
				w.st.Probes["diff-across-two-stores"]++
				if rx.bad() {
					w.failFor("C06", "diffiter-fails/"+sides+"/two-stores", "DiffIter between versions held in two different stores: %s", rx)
					return
				}
				if !sameStrs(gotX, want) {
					w.failFor("C06", "diffiter-wrong/"+sides+"/two-stores", "DiffIter between versions held in two different stores: %s", firstDiff(gotX, want))
					return
				}
			}
		}
	}
	// cursor interface must agree
	var gotC []string
	rc := guard(func() error {
		// the cursor is opened under a context of its own that is finished before the first step
		// (a helper with "defer cancel()" that returns the cursor); the steps bring their own
		sctx, scancel := context.WithCancel(ctx)
		dc, err := newM.StartDiff(sctx, oldM)
		scancel()
		if err != nil {
			return err
		}
		for i := 0; i < len(want)+5; i++ {
			d, err := dc.NextEntry(ctx)
			if err == mast.ErrNoMoreDiffs {
				return nil
			}
			if err != nil {
				return err
			}
			kind := "change"
			switch d.Type {
			case mast.DiffType_Add:
				kind = "add"
			case mast.DiffType_Remove:
				kind = "remove"
			}
			gotC = append(gotC, w.diffRec(kind, d.Key, d.OldValue, d.NewValue))
		}
		return nil
	})
	if rc.bad() {
		w.failFor("C06", "diffcursor-fails/"+sides, "StartDiff/NextEntry(%s): %s", sides, rc)
		return
	}
	if !sameStrs(gotC, want) {
		w.failFor("C06", "diffcursor-wrong/"+sides, "NextEntry sequence (%s): %s", sides, firstDiff(gotC, want))
		return
	}
}

func sidePredicate(m *Model, kind string) string {
	if m == nil {
		return "nil"
	}
	if m.Len() == 0 {
		return "empty-" + kind
	}
	return kind
}

// ---- node diff (C07) and diff cost (C15) ----

func (w *World) opDiffLinks(op *Op) {
	if w.cfg.InMemory {
		return
	}
	va, vb := w.version(op.A), w.version(op.B)
	if vb == nil || vb.kind != "root" {
		return
	}
	if op.A != refNil && (va == nil || va.kind != "root" || va.disk != vb.disk) {
		return
	}
	d := vb.disk
	var reachA []string
	if va != nil {
		var r callResult
		var missing []string
		reachA, _, missing, r = w.reachByObservation(va.root, d)
		if r.bad() || len(missing) > 0 {
			w.failFor("C03", "root-incomplete", "old version unreadable: %s", r)
			return
		}
	}
	reachB, obsB, missing, r := w.reachByObservation(vb.root, d)
	if r.bad() || len(missing) > 0 {
		w.failFor("C03", "root-incomplete", "new version unreadable: %s", r)
		return
	}
	setA, setB := toSet(reachA), toSet(reachB)
	D := 0
	for n := range setA {
		if !setB[n] {
			D++
		}
	}
	for n := range setB {
		if !setA[n] {
			D++
		}
	}
	rel := "unrelated"
	if va == nil {
		rel = "nil-old"
	} else if rootLink(va.root) == rootLink(vb.root) {
		rel = "same-version"
	} else if D < len(setA)+len(setB) {
		rel = "sharing-nodes"
	}
	if va != nil && va.root.Height != vb.root.Height {
		rel += "/heights-differ"
	}
	w.st.Probes["difflinks-"+strings.Split(rel, "/")[0]]++

	loadPair := func(cache mast.NodeCache) (*mast.Mast, *mast.Mast, bool) {
		var oldM *mast.Mast
		if va != nil {
			var r callResult
			oldM, r = w.loadRoot(va.root, d, cache, nil)
			if r.bad() {
				w.failFor("C05", "reload-fails", "LoadMast: %s", r)
				return nil, nil, false
			}
		}
		newM, r := w.loadRoot(vb.root, d, cache, nil)
		if r.bad() {
			w.failFor("C05", "reload-fails", "LoadMast: %s", r)
			return nil, nil, false
		}
		return oldM, newM, true
	}

	// --- DiffLinks
	disk := w.disks[d]
	preCapture := false // take a clone / open a cursor on the handles before diffing them
	captureOld := true
	runDL := func(cache mast.NodeCache, failAt int) (added, removed []string, nonString int, loaded []string, calls int, rr callResult, ok bool) {
		oldM, newM, ok := loadPair(cache)
		if !ok {
			return nil, nil, 0, nil, 0, rr, false
		}
		if preCapture {
			r := guard(func() error {
				if _, err := newM.Clone(ctx); err != nil {
					return err
				}
				if oldM != nil && captureOld {
					if _, err := oldM.Cursor(ctx); err != nil {
						return err
					}
				}
				return nil
			})
			if r.bad() {
				w.failFor("C01", "clone-fails", "Clone/Cursor before diff: %s", r)
				return nil, nil, 0, nil, 0, rr, false
			}
		}
		disk.BeginCall()
		if failAt > 0 {
			disk.FailLoadAt, disk.FailLoadKind = failAt, "fail"
		}
		rr = guard(func() error {
			return newM.DiffLinks(ctx, oldM, func(rem bool, link interface{}) (bool, error) {
				s, ok := link.(string)
				if !ok {
					nonString++
					return true, nil
				}
				if rem {
					removed = append(removed, s)
				} else {
					added = append(added, s)
				}
				return true, nil
			})
		})
		disk.ClearFaults()
		loaded, _, calls, _ = disk.Window()
		return added, removed, nonString, loaded, calls, rr, true
	}
	added, removed, nonString, loadedDL, dlCalls, rr, ok := runDL(nil, 0)
	if !ok {
		return
	}
	if rr.bad() {
		w.failFor("C07", "difflinks-fails/"+rel, "DiffLinks(%s): %s", rel, rr)
		return
	}
	w.st.OracleEvals++
	if w.prop == "C07" {
		judge := func(how string, added, removed []string, nonString int) bool {
			if nonString > 0 {
				w.fail("difflinks-non-name-link/"+rel, "%s: %d reported links of persisted versions are not names", how, nonString)
				return false
			}
			// at-most-once is demanded of fault-free diffs only: after a transient Load error
			// the de-duplication memo may legitimately be incomplete (a repeat is harmless to a
			// replica; a missing name is not)
			if how != "load-fault" {
				if dup := firstDup(added); dup != "" {
					w.fail("added-reported-twice/"+rel, "%s: added node %s reported more than once", how, dup)
					return false
				}
				if dup := firstDup(removed); dup != "" {
					w.fail("removed-reported-twice/"+rel, "%s: removed node %s reported more than once", how, dup)
					return false
				}
			}
			addedSet, removedSet := toSet(added), toSet(removed)
			for _, n := range added {
				if !setB[n] {
					w.fail("added-outside-new-version/"+rel, "%s: added node %s is not reachable from the new version", how, n)
					return false
				}
			}
			for _, n := range removed {
				if !setA[n] {
					w.fail("removed-outside-old-version/"+rel, "%s: removed node %s is not reachable from the old version", how, n)
					return false
				}
			}
			for _, n := range reachB {
				if !setA[n] && !addedSet[n] {
					w.fail("added-incomplete/"+rel+"/"+how, "%s: node %s is reachable from the new version only but was not reported as added (%d reported, %d needed)", how, n, len(added), countOnly(setB, setA))
					return false
				}
			}
			for _, n := range reachA {
				if !setB[n] && !removedSet[n] {
					w.fail("removed-incomplete/"+rel+"/"+how, "%s: node %s is reachable from the old version only but was not reported as removed", how, n)
					return false
				}
			}
			return true
		}
		if !judge("cache-less", added, removed, nonString) {
			return
		}
		// replica run: a store holding old + exactly the added nodes must load the new version
		rep := NewSimDisk("sim://replica")
		for _, n := range reachA {
			b, _ := disk.Bytes(n)
			rep.Put(n, b)
		}
		for _, n := range added {
			b, _ := disk.Bytes(n)
			rep.Put(n, b)
		}
		view := rep.View()
		m, r := w.loadRoot(vb.root, d, nil, view)
		var obs []string
		if !r.bad() {
			obs, r = w.observe(m)
		}
		if r.bad() || len(view.Missing) > 0 {
			w.fail("replica-cannot-load-new-version/"+rel, "a replica holding the old version plus the %d added nodes cannot load the new version: %s (missing %v)", len(added), r, view.Missing)
			return
		}
		if !sameStrs(obs, obsB) {
			w.fail("replica-wrong-contents/"+rel, "replica contents differ: %s", firstDiff(obs, obsB))
			return
		}
		w.st.Probes["replica-sync-ok"]++
		// the replica's own view: the old version is loaded from a store that holds nothing but the
		// old version, the new one from the source store
		if va != nil {
			repOld := NewSimDisk("sim://replica-old")
			for _, n := range reachA {
				b, _ := disk.Bytes(n)
				repOld.Put(n, b)
			}
			// ... and the new version from a store that holds nothing but the new version: neither
			// side's nodes can be fetched through the other side's store
			repNew := NewSimDisk("sim://source-new-only")
			for _, n := range reachB {
				b, _ := disk.Bytes(n)
				repNew.Put(n, b)
			}
			oldR, r1 := w.loadRoot(va.root, d, nil, repOld)
			newS, r2 := w.loadRoot(vb.root, d, nil, repNew)
			if !r1.bad() && !r2.bad() {
				var a4, r4 []string
				ns4 := 0
				rr4 := guard(func() error {
					return newS.DiffLinks(ctx, oldR, func(rem bool, link interface{}) (bool, error) {
						s, ok := link.(string)
						if !ok {
							ns4++
							return true, nil
						}
						if rem {
							r4 = append(r4, s)
						} else {
							a4 = append(a4, s)
						}
						return true, nil
					})
				})
				if rr4.bad() {
					w.fail("difflinks-fails/"+rel+"/cross-store", "DiffLinks with the old version on the replica's store: %s", rr4)
					return
				}
				w.st.Probes["difflinks-across-two-stores"]++
				if !judge("cross-store", a4, r4, ns4) {
					return
				}
			}
		}
		// the same diff on handles that have been cloned / had a cursor opened on them first
		{
			preCapture = true
			a5, r5, ns5, _, _, rr5, ok := runDL(nil, 0)
			preCapture = false
			if !ok {
				return
			}
			if rr5.bad() {
				w.fail("difflinks-fails/"+rel+"/after-clone", "DiffLinks on handles that were cloned first: %s", rr5)
				return
			}
			w.st.Probes["difflinks-after-clone-or-cursor"]++
			if !judge("after-clone", a5, r5, ns5) {
				return
			}
		}
		// the same diff computed by trees that load through the world's shared cache
		if w.cache != nil {
			a2, r2, ns2, _, _, rr2, ok := runDL(asNodeCache(w.cache), 0)
			if !ok {
				return
			}
			if rr2.bad() {
				w.fail("difflinks-fails/"+rel+"/shared-cache", "DiffLinks through the shared cache: %s", rr2)
				return
			}
			w.st.Probes["difflinks-through-shared-cache"]++
			if !judge("shared-cache", a2, r2, ns2) {
				return
			}
		}
		// transient store faults: each single Load call of the diff fails once. The diff may
		// report the error; if it reports success its output must still be complete.
		maxF := dlCalls
		if maxF > 12 {
			maxF = 12
		}
		for i := 1; i <= maxF; i++ {
			a3, r3, ns3, _, _, rr3, ok := runDL(nil, i)
			if !ok {
				return
			}
			w.st.Faults["load-fail"]++
			if rr3.panicked != nil {
				continue
			}
			if rr3.err != nil {
				w.st.Probes["difflinks-fault-reported"]++
				continue
			}
			w.st.Probes["difflinks-fault-absorbed"]++
			if !judge(fmt.Sprintf("load-fault"), a3, r3, ns3) {
				return
			}
		}
		return
	}
	if w.prop == "C15" {
		bound := 2*D + 2
		if rel == "same-version" || (va != nil && rootLink(va.root) == rootLink(vb.root)) {
			bound = 0
		}
		maxH := int(vb.root.Height)
		if va != nil && int(va.root.Height) > maxH {
			maxH = int(va.root.Height)
		}
		// tooMuch files a violation when a diff interface read more than the bound. An excess of at
		// most one root-to-leaf spine (<= height+1 nodes) is a distinct, known behaviour (see
		// known_findings.jsonl): it gets its own signature so that anything worse is still reported.
		tooMuch := func(iface, how string, n int) bool {
			if n <= bound {
				return false
			}
			if bound > 0 && n <= bound+maxH+1 {
				w.fail("reads-exceed-bound-by-at-most-one-spine", "%s%s read %d distinct nodes; versions differ in D=%d nodes (bound %d, heights %d); versions have %d and %d nodes", iface, how, n, D, bound, maxH, len(setA), len(setB))
				return true
			}
			w.fail(iface+"-reads-too-much/"+strings.Split(rel, "/")[0]+how, "%s%s read %d distinct nodes; versions differ in D=%d nodes (bound %d); versions have %d and %d nodes", iface, how, n, D, bound, len(setA), len(setB))
			return true
		}
		if tooMuch("difflinks", "", len(loadedDL)) {
			return
		}
		{
			preCapture, captureOld = true, false // only the new side's handle has been cloned
			_, _, _, loadedCap, _, rrc, ok := runDL(nil, 0)
			preCapture, captureOld = false, true
			if !ok {
				return
			}
			if !rrc.bad() && tooMuch("difflinks", "/after-clone", len(loadedCap)) {
				return
			}
		}
		// DiffIter
		oldM, newM, ok := loadPair(nil)
		if !ok {
			return
		}
		disk.BeginCall()
		rr = guard(func() error {
			return newM.DiffIter(ctx, oldM, func(a, r bool, k, av, rv interface{}) (bool, error) { return true, nil })
		})
		loadedDI, _, _, _ := disk.Window()
		if rr.bad() {
			w.failFor("C06", "diffiter-fails/"+rel, "DiffIter(%s): %s", rel, rr)
			return
		}
		if tooMuch("diffiter", "", len(loadedDI)) {
			return
		}
		// cursor interface
		oldM, newM, ok = loadPair(nil)
		if !ok {
			return
		}
		disk.BeginCall()
		rr = guard(func() error {
			dc, err := newM.StartDiff(ctx, oldM)
			if err != nil {
				return err
			}
			for i := 0; i < 1000000; i++ {
				if _, err := dc.NextEntry(ctx); err != nil {
					if err == mast.ErrNoMoreDiffs {
						return nil
					}
					return err
				}
			}
			return nil
		})
		loadedDC, _, _, _ := disk.Window()
		if rr.bad() {
			w.failFor("C06", "diffcursor-fails/"+rel, "NextEntry(%s): %s", rel, rr)
			return
		}
		if tooMuch("diffcursor", "", len(loadedDC)) {
			return
		}
		if D > 0 && D*4 < len(setA)+len(setB) {
			w.st.Probes["small-delta-in-big-tree"]++
		}
		// two different Persist values over one store (e.g. one client wrapper object per LoadMast):
		// equal names are still equal nodes
		if va != nil {
			oldM, r1 := w.loadRoot(va.root, d, nil, nil)
			newM, r2 := w.loadRoot(vb.root, d, nil, &persistAlias{disk})
			if r1.bad() || r2.bad() {
				w.failFor("C05", "reload-fails", "LoadMast: %s %s", r1, r2)
				return
			}
			disk.BeginCall()
			rr = guard(func() error {
				return newM.DiffIter(ctx, oldM, func(a, r bool, k, av, rv interface{}) (bool, error) { return true, nil })
			})
			loadedAlias, _, _, _ := disk.Window()
			if rr.bad() {
				w.failFor("C06", "diffiter-fails/"+rel, "DiffIter(%s, two Persist values): %s", rel, rr)
				return
			}
			w.st.Probes["diff-cost-two-persist-values-one-store"]++
			if tooMuch("diffiter", "/two-persist-values", len(loadedAlias)) {
				return
			}
		}
		// a replica: the new version is opened on another store that holds the same nodes (a copy),
		// the old one on this store, each through its own cold cache. Equal names are equal nodes
		// whichever store they came from: common subtrees are still skipped unread.
		if va != nil {
			replica := disk.Snapshot("sim://replica-of-" + disk.NodeURLPrefix())
			oldM, r1 := w.loadRoot(va.root, d, mast.NewNodeCache(256), nil)
			newM, r2 := w.loadRoot(vb.root, d, mast.NewNodeCache(256), replica)
			if r1.bad() || r2.bad() {
				w.failFor("C05", "reload-fails", "LoadMast: %s %s", r1, r2)
				return
			}
			disk.BeginCall()
			replica.BeginCall()
			rr = guard(func() error {
				return newM.DiffIter(ctx, oldM, func(a, r bool, k, av, rv interface{}) (bool, error) { return true, nil })
			})
			l1, _, _, _ := disk.Window()
			l2, _, _, _ := replica.Window()
			if rr.bad() {
				w.failFor("C06", "diffiter-fails/"+rel, "DiffIter(%s, new side on a replica store): %s", rel, rr)
				return
			}
			w.st.Probes["diff-cost-across-replica-stores-with-caches"]++
			both := map[string]bool{}
			for _, n := range l1 {
				both[n] = true
			}
			for _, n := range l2 {
				both[n] = true
			}
			if tooMuch("diffiter", "/replica-store-with-caches", len(both)) {
				return
			}
		}
		// mixed provenance: one side opened through the world's shared cache (which may hold node
		// objects this process wrote), the other cache-less. A cache can only save reads, so the
		// same bound applies to what reaches the store.
		if w.cache != nil && va != nil {
			for _, mix := range []string{"old-cached", "new-cached", "both-cached"} {
				var co, cn mast.NodeCache
				if mix != "new-cached" {
					co = asNodeCache(w.cache)
				}
				if mix != "old-cached" {
					cn = asNodeCache(w.cache)
				}
				oldM, r1 := w.loadRoot(va.root, d, co, nil)
				newM, r2 := w.loadRoot(vb.root, d, cn, nil)
				if r1.bad() || r2.bad() {
					w.failFor("C05", "reload-fails", "LoadMast: %s %s", r1, r2)
					return
				}
				disk.BeginCall()
				rr = guard(func() error {
					return newM.DiffIter(ctx, oldM, func(a, r bool, k, av, rv interface{}) (bool, error) { return true, nil })
				})
				loadedMix, _, _, _ := disk.Window()
				if rr.bad() {
					w.failFor("C06", "diffiter-fails/"+rel, "DiffIter(%s, %s): %s", rel, mix, rr)
					return
				}
				w.st.Probes["diff-cost-mixed-provenance"]++
				if tooMuch("diffiter", "/"+mix, len(loadedMix)) {
					return
				}
			}
		}
	}
}

// persistAlias is a second Persist value over the same store (same prefix, same contents).
type persistAlias struct{ d *SimDisk }

func (p *persistAlias) NodeURLPrefix() string { return p.d.NodeURLPrefix() }
func (p *persistAlias) Load(c context.Context, name string) ([]byte, error) {
	return p.d.Load(c, name)
}
func (p *persistAlias) Store(c context.Context, name string, b []byte) error {
	return p.d.Store(c, name, b)
}

func toSet(s []string) map[string]bool {
	m := map[string]bool{}
	for _, x := range s {
		m[x] = true
	}
	return m
}

func firstDup(s []string) string {
	seen := map[string]bool{}
	for _, x := range s {
		if seen[x] {
			return x
		}
		seen[x] = true
	}
	return ""
}

func countOnly(a, b map[string]bool) int {
	n := 0
	for x := range a {
		if !b[x] {
			n++
		}
	}
	return n
}

// ---- point-operation read cost (C16) ----

func (w *World) opProbe(op *Op) {
	if w.cfg.InMemory {
		return
	}
	v := w.version(op.A)
	if v == nil || v.kind != "root" || !w.keyOK(op.Key) {
		return
	}
	disk := w.disks[v.disk]
	H := int(v.root.Height)
	root := v.root
	if w.cfg.Format == FmtMarshaler && op.Val%3 == 1 {
		// a legacy root record: an empty NodeFormat means the v1marshaler format
		lr := *v.root
		lr.NodeFormat = ""
		root = &lr
		w.st.Probes["probe-legacy-root-record"]++
	}
	disk.BeginCall()
	m, r := w.loadRoot(root, v.disk, nil, nil)
	_, _, lmCalls, _ := disk.Window()
	if r.bad() {
		w.failFor("C05", "reload-fails", "LoadMast: %s", r)
		return
	}
	w.st.OracleEvals++
	// reads are counted as Persist.Load calls (the tree has no cache, so every call is a read)
	if lmCalls > 1 {
		w.failFor("C16", "loadmast-reads-more-than-top", "LoadMast made %d Load calls", lmCalls)
		return
	}
	key := w.kd.Key(op.Key)
	_, present := v.snap.Get(op.Key)
	pk := "absent"
	if present {
		pk = "present"
	}
	var bound int
	var rr callResult
	what := op.F
	disk.BeginCall()
	garbled := false
	if op.N > 0 {
		// one read of this call is served truncated, without an error (stale replica): the call
		// may fail; if it succeeds it has still read no more than its bound
		disk.GarbleLoadAt = op.N
		garbled = true
		defer disk.ClearFaults()
	}
	switch op.F {
	case "clone":
		rr = guard(func() error { _, err := m.Clone(ctx); return err })
		bound = 1
	case "get":
		rr = guard(func() error { _, err := m.Get(ctx, key, nil); return err })
		bound = H + 1
	case "ins":
		rr = guard(func() error { return m.Insert(ctx, key, w.vd.Val(op.Val)) })
		bound = 2 * (H + 1)
	case "del":
		if !present {
			return
		}
		cv, _ := v.snap.Get(op.Key)
		rr = guard(func() error { return m.Delete(ctx, key, w.vd.Val(cv)) })
		bound = 2 * (H + 1)
	default:
		return
	}
	loaded, _, calls, _ := disk.Window()
	disk.GarbleLoadAt = 0
	if garbled && disk.Fired["load-truncated-bytes"] > 0 {
		w.st.Faults["load-truncated-bytes"]++
	}
	if rr.bad() {
		if garbled {
			w.st.Probes["probe-failed-on-truncated-read"]++
			return
		}
		w.failFor("C01", what+"-fails", "%s on reloaded tree: %s", what, rr)
		return
	}
	if garbled {
		what += "/one-read-truncated"
	}
	if int(m.Height()) != H {
		w.st.Probes["probe-height-changed"]++
		return // height changed: no bound claimed
	}
	w.st.Probes["probe-"+what]++
	if calls > w.st.Max["load-calls-per-point-op"] {
		w.st.Max["load-calls-per-point-op"] = calls
	}
	if calls > bound {
		w.failFor("C16", what+"-reads-too-much/"+pk, "%s(key#%d, %s) on a height-%d tree made %d Load calls for %d distinct nodes (bound %d)", what, op.Key, pk, H, calls, len(loaded), bound)
	}
}

func newPtrLike(like interface{}) interface{} {
	return reflect.New(reflect.TypeOf(like)).Interface()
}

func derefPtr(p interface{}) interface{} {
	return reflect.ValueOf(p).Elem().Interface()
}
