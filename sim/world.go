package sim

import (
	"errors"
	"context"
	"encoding/json"
	"fmt"
	"os"
	"path/filepath"
	"reflect"
	"sort"
	"strings"
	"testing"
	"testing/synctest"

	"github.com/jrhy/mast"
	masts3 "github.com/jrhy/mast/persist/s3"
	mastfile "github.com/jrhy/mast/persist/file"
)

var ctx = context.Background()

// Violation is a failed oracle clause.
type Violation struct {
	Prop   string `json:"property"`
	Sig    string `json:"signature"`
	Detail string `json:"detail"`
	OpIdx  int    `json:"op_index"`
}

func (v *Violation) String() string {
	return fmt.Sprintf("%s at op %d: %s", v.Sig, v.OpIdx, v.Detail)
}

// Tree is a working tree slot.
type Tree struct {
	m     *mast.Mast
	model *Model
	disk  int
	// version the tree was last loaded from / persisted as (C13)
	base       *Model
	baseRoot   *mast.Root
	baseHeight int
	modKeys    map[int]bool
	lineage    int
	hChanged   bool
	flushFailedBefore bool
	// unsure: an op on this tree ran under an injected load fault (C09/C04 fault histories); the
	// model may legitimately disagree from here on and model-based oracles are off for this tree
	unsure bool
}

// Version is a captured version: clone handle, cursor, or persisted root.
type Version struct {
	kind string
	m    *mast.Mast
	cur  *mast.Cursor
	root *mast.Root
	disk int
	snap *Model   // model at capture
	obs  []string // observation at capture (same method as later re-observations)
	obsOK bool
	dead bool
	persistedFrom int
}

// Stats are per-run counters merged into the shard report.
type Stats struct {
	Ops         int
	Steps       int // scheduler steps + seam calls (logical time)
	Faults      map[string]int
	Probes      map[string]int
	Truncated   string
	Skipped     int
	MaxInflight int
	OracleEvals int
	Max         map[string]int
	Sched       map[uint64]bool // hashes of (completion order, outcomes) of flushes with >= 2 Stores
}

func newStats() *Stats {
	return &Stats{Faults: map[string]int{}, Probes: map[string]int{}, Max: map[string]int{}, Sched: map[uint64]bool{}}
}

// World is one simulated process: trees, versions, disks, cache, model, chooser.
type World struct {
	cancelArm bool // next scheduled MakeRoot runs under a context cancelled after cancelAt Stores
	cancelAt  int
	t     *testing.T
	sc    *Scenario
	cfg   Config
	prop  string
	kd    *KeyDialect
	vd    *ValDialect
	ch    *Chooser
	disks []*SimDisk
	cache *SimCache
	trees []*Tree
	vers  []*Version
	viol  *Violation
	st    *Stats
	opIdx int
	cb    *Callbacks
	layerFn func(interface{}, uint) (uint8, error)
	log   *hasher
	nextLineage int
	rootReg map[string]string // root name -> contents hash (C08)
	detTable map[string]uint64 // logical node content -> bytes hash (C08)
	extra  map[string]int
	// hooks for derived engines
	beforeOp func(i int, op *Op)
	seams    *seamCounters
	counted  map[string]int
	mirrorDirs []string
}

const (
	refNil     = 1000
	refVerBase = 100
)

func NewWorld(t *testing.T, sc *Scenario) *World {
	w := &World{t: t, sc: sc, cfg: sc.Cfg, prop: sc.Property, st: newStats(), log: newHasher(),
		rootReg: map[string]string{}, detTable: map[string]uint64{}, extra: sc.Extra}
	if sc.Tape != nil {
		w.ch = NewReplayChooser(sc.Seed, sc.Tape)
	} else {
		w.ch = NewChooser(sc.Seed)
	}
	w.kd = NewKeyDialect(w.cfg.KeyD, w.cfg.U, w.cfg.Layers)
	if w.cfg.CmpScale < 0 && !w.cfg.InMemory {
		// the configured KeyCompare orders the keys the other way round (NewInMemory trees take no
		// configuration: they always use the default order)
		w.kd.Reverse()
	}
	w.vd = &ValDialect{w.cfg.ValD}
	nd := w.cfg.Disks
	if nd < 1 {
		nd = 1
	}
	for i := 0; i < nd; i++ {
		prefix := fmt.Sprintf("sim://d%d", i)
		switch w.cfg.Prefixes {
		case "port":
			// what the S3 adapter calls two servers that differ in the port only
			prefix = masts3.NewPersist(nil, fmt.Sprintf("http://127.0.0.1:%d", 9000+i), "bucket", "nodes/").NodeURLPrefix()
		case "slash":
			prefix = "sim://host/bucket/app" + strings.Repeat("/", i)
		}
		d := NewSimDisk(prefix)
		w.disks = append(w.disks, d)
		w.installStoreMonitor(d)
		if w.cfg.Mirror == "file" {
			base := os.Getenv("VERIF_OUT")
			if base == "" {
				base = os.TempDir()
			}
			dir := filepath.Join(base, fmt.Sprintf("mirror-%d-%x-%d", os.Getpid(), sc.Seed, i))
			os.RemoveAll(dir)
			if os.MkdirAll(dir, 0o755) == nil {
				d.mirror = mastfile.NewPersistForPath(dir)
				w.mirrorDirs = append(w.mirrorDirs, dir)
			}
		}
	}
	w.cache = NewSimCache(w.cfg.Cache, w.ch)
	if w.cache != nil && w.prop != "C02" && w.prop != "C11" {
		w.cache.monitor = false // the cached-object fingerprint monitor belongs to C02/C11
	}
	if w.cfg.CheckEvery == 0 && w.prop != "C01" && w.prop != "C02" {
		// other properties use the contents check only as a guard (their own oracles re-check
		// what they depend on), so it need not run after every single op
		w.cfg.CheckEvery = 4
	}
	w.layerFn = mast.DefaultLayer(w.cfg.MarshalFn())
	if w.cfg.CmpScale != 0 {
		base := mast.DefaultKeyCompare(w.cfg.MarshalFn())
		scale := w.cfg.CmpScale
		w.cb = &Callbacks{KeyCompare: func(a, b interface{}) (int, error) {
			c, err := base(a, b)
			return c * scale, err
		}}
	}
	if w.cfg.CbFaults {
		w.installCallbackFaults()
		w.seams.marOutsideCmpOnly = true
	}
	return w
}

func (w *World) fail(clause, detail string, a ...interface{}) {
	if w.viol != nil {
		return
	}
	w.viol = &Violation{Prop: w.prop, Sig: w.prop + "/" + clause, Detail: fmt.Sprintf(detail, a...), OpIdx: w.opIdx}
}

// failIf reports a violation only when the named property is the one under judgement;
// otherwise the run is truncated as "unrelated".
func (w *World) failFor(prop, clause, detail string, a ...interface{}) {
	if w.prop == prop {
		w.fail(clause, detail, a...)
		return
	}
	if w.st.Truncated == "" {
		w.st.Truncated = prop + "/" + clause
		w.st.Skipped++
	}
}

// cfgPredicate qualifies signatures with the one configuration that is a known finding:
// registered-types unmarshalling without example key/value types in the compact format.
func (w *World) cfgPredicate() string {
	if w.cfg.NoLike && w.cfg.Format == FmtBinary {
		return "/registered-types-without-examples/" + FmtBinary
	}
	return ""
}

// softFor: an oracle of another property failed at a point where the run can meaningfully go on
// (the property under judgement has its own oracle on what follows): it is counted, and
// reported only when that other property is the one under judgement.
func (w *World) softFor(prop, clause, detail string, a ...interface{}) bool {
	if w.prop == prop {
		w.fail(clause, detail, a...)
		return true
	}
	w.st.Skipped++
	w.st.Probes["other-property-oracle-failed:"+prop+"/"+clause]++
	return false
}

func (w *World) stopped() bool { return w.viol != nil || w.st.Truncated != "" }

// ---- helpers: calling into the library with panic capture ----

type callResult struct {
	err      error
	panicked interface{}
}

func guard(f func() error) (res callResult) {
	defer func() {
		if r := recover(); r != nil {
			res.panicked = r
		}
	}()
	res.err = f()
	return
}

func (r callResult) bad() bool { return r.err != nil || r.panicked != nil }
func (r callResult) String() string {
	if r.panicked != nil {
		return fmt.Sprintf("panic: %v", r.panicked)
	}
	if r.err != nil {
		return "error: " + r.err.Error()
	}
	return "ok"
}

func valRepr(v interface{}) string {
	s := fmt.Sprintf("%#v", v)
	if len(s) > 400 {
		// very large values are represented by a prefix, their length and a hash of the whole
		return fmt.Sprintf("%s...(len %d, fnv %x)", s[:48], len(s), fnv64([]byte(s)))
	}
	return s
}

func (w *World) modelObs(m *Model) []string {
	out := make([]string, len(m.es))
	for i, e := range m.es {
		out[i] = fmt.Sprintf("%d=%s", e.K, valRepr(w.vd.Val(e.V)))
	}
	return out
}

func (w *World) obsEntry(k, v interface{}) string {
	ki, ok := w.kd.Index(k)
	if !ok {
		return fmt.Sprintf("?%s=%s", keyString(k), valRepr(v))
	}
	return fmt.Sprintf("%d=%s", ki, valRepr(v))
}

// observe iterates a tree completely.
func (w *World) observe(m *mast.Mast) ([]string, callResult) {
	var out []string
	r := guard(func() error {
		return m.Iter(ctx, func(k, v interface{}) error {
			out = append(out, w.obsEntry(k, v))
			return nil
		})
	})
	return out, r
}

func sameStrs(a, b []string) bool {
	if len(a) != len(b) {
		return false
	}
	for i := range a {
		if a[i] != b[i] {
			return false
		}
	}
	return true
}

func firstDiff(a, b []string) string {
	n := len(a)
	if len(b) < n {
		n = len(b)
	}
	for i := 0; i < n; i++ {
		if a[i] != b[i] {
			return fmt.Sprintf("at #%d: got %s want %s (len got %d want %d)", i, a[i], b[i], len(a), len(b))
		}
	}
	if len(a) != len(b) {
		return fmt.Sprintf("length got %d want %d", len(a), len(b))
	}
	return "equal"
}

// sanity checks that a working tree's observable contents equal its model (C01's core
// oracle). For other properties a mismatch truncates the run as unrelated.
func (w *World) sanity(t *Tree, after string) bool {
	if t == nil || t.m == nil || t.unsure {
		return true
	}
	obs, r := w.observe(t.m)
	if r.bad() {
		w.failFor("C01", "iter-fails/"+after, "full iteration after %s: %s", after, r)
		return false
	}
	want := w.modelObs(t.model)
	if !sameStrs(obs, want) {
		w.failFor("C01", "contents-mismatch/"+after, "contents after %s differ from model: %s", after, firstDiff(obs, want))
		return false
	}
	if int(t.m.Size()) != t.model.Len() {
		w.failFor("C01", "size-wrong/"+after, "Size()=%d, model has %d entries", t.m.Size(), t.model.Len())
		return false
	}
	return true
}

func (w *World) hasUnmarshalable(m *Model) bool {
	if w.vd.Name != "inf" {
		return false
	}
	for _, e := range m.Entries() {
		if w.vd.Unmarshalable(e.V) {
			return true
		}
	}
	return false
}

func (w *World) tree(i int) *Tree {
	if i < 0 || i >= len(w.trees) {
		return nil
	}
	t := w.trees[i]
	if t == nil || t.m == nil {
		return nil
	}
	return t
}

func (w *World) version(ref int) *Version {
	i := ref - refVerBase
	if i < 0 || i >= len(w.vers) {
		return nil
	}
	v := w.vers[i]
	if v == nil || v.dead {
		return nil
	}
	return v
}

// newEmptyTree creates a fresh working tree on disk d.
func (w *World) newEmptyTree(d int) (*Tree, callResult) {
	t := &Tree{model: NewModel(w.kd), disk: d, modKeys: map[int]bool{}, lineage: w.nextLineage}
	w.nextLineage++
	if w.cfg.InMemory {
		m := mast.NewInMemory()
		t.m = &m
		return t, callResult{}
	}
	var m *mast.Mast
	rc := w.cfg.RemoteConfig(w.kd, w.vd, w.disks[d], asNodeCache(w.cache), w.cb)
	r := guard(func() error {
		var err error
		m, err = w.cfg.NewRoot().LoadMast(ctx, rc)
		return err
	})
	poisonConfig(rc)
	t.m = m
	t.base = NewModel(w.kd)
	return t, r
}

func (w *World) loadRoot(root *mast.Root, d int, cache mast.NodeCache, p mast.Persist) (*mast.Mast, callResult) {
	var m *mast.Mast
	if p == nil {
		p = w.disks[d]
	}
	rc := w.cfg.RemoteConfig(w.kd, w.vd, p, cache, w.cb)
	r := guard(func() error {
		var err error
		m, err = root.LoadMast(ctx, rc)
		return err
	})
	poisonConfig(rc)
	return m, r
}

// poisonConfig overwrites a RemoteConfig after LoadMast has returned, the way a caller does who
// reuses one config variable for the next tree with another codec: a tree is configured by what
// its config said when it was opened.
func poisonConfig(rc *mast.RemoteConfig) {
	rc.Marshal = func(interface{}) ([]byte, error) {
		return nil, errors.New("sim: RemoteConfig was changed by the caller after LoadMast returned")
	}
	rc.Unmarshal = func([]byte, interface{}) error {
		return errors.New("sim: RemoteConfig was changed by the caller after LoadMast returned")
	}
	rc.KeyCompare = func(a, b interface{}) (int, error) {
		return 0, errors.New("sim: RemoteConfig was changed by the caller after LoadMast returned")
	}
}

// ---- Run ----

// Run executes the scenario inside a synctest bubble (so that the concurrent
// Stores of every flush are scheduled deterministically) and returns the
// first violation, if any.
func RunScenario(t *testing.T, sc *Scenario) (w *World) {
	defer func() {
		if r := recover(); r != nil {
			// end-of-bubble deadlock panic or harness bug
			if w != nil && w.viol == nil {
				w.st.Truncated = fmt.Sprintf("bubble-panic: %v", r)
			}
		}
	}()
	hang.begin(sc)
	defer hang.end()
	if p := inBubble(t, func(t *testing.T) {
		w = NewWorld(t, sc)
		hang.world.Store(w)
		w.run()
	}); p != nil {
		panic(p)
	}
	return w
}

// inBubble runs f inside a synctest bubble on a goroutine of its own and hands back a panic that
// came out of it. The testing package ends the goroutine that called synctest.Test (FailNow) as
// soon as anything inside the bubble was marked failed — which is what a race report does in a
// race build. The shard has to survive that: it reads the detector's log and judges the report.
func inBubble(t *testing.T, f func(t *testing.T)) (panicked interface{}) {
	done := make(chan struct{})
	go func() {
		defer close(done)
		defer func() { panicked = recover() }()
		synctest.Test(t, f)
	}()
	<-done
	return panicked
}

func (w *World) run() {
	// initial tree
	t0, r := w.newEmptyTree(0)
	if r.bad() {
		w.failFor("C01", "newtree-fails", "creating an empty tree: %s", r)
		return
	}
	w.trees = append(w.trees, t0)
	for i := range w.sc.Ops {
		if w.stopped() {
			break
		}
		w.opIdx = i
		op := &w.sc.Ops[i]
		if w.beforeOp != nil {
			w.beforeOp(i, op)
		}
		w.st.Ops++
		w.exec(op)
		if w.stopped() {
			break
		}
		w.afterOp(op)
	}
	w.finish()
}

func (w *World) finish() {
	for _, dir := range w.mirrorDirs {
		os.RemoveAll(dir)
	}
	for _, d := range w.disks {
		w.st.Steps += d.LogLen()
		for k, v := range d.Fired {
			w.st.Faults[k] += v
		}
		d.LogHash(w.log)
	}
	if w.cache != nil {
		for k, v := range w.cache.Stats {
			w.st.Probes["cache-"+k] += v
		}
	}
}

// afterOp runs the step-end monitors.
func (w *World) afterOp(op *Op) {
	// C08 write monitor (always on; reported only when C08 is judged)
	for _, d := range w.disks {
		if w.monitorTripped(d) {
			return
		}
	}
	// cached-object monitor (C02 / C11)
	if w.cache != nil {
		w.cache.CheckAll()
		if len(w.cache.Viol) > 0 {
			cv := w.cache.Viol[0]
			w.cache.Viol = nil
			if w.prop == "C02" || w.prop == "C11" {
				w.fail(cv.Clause+"/"+op.K, "cache key %s: %s", cv.Key, cv.Detail)
				return
			}
		}
	}
	if w.prop == "C02" {
		w.checkVersions(op)
	}
	if w.prop == "C13" {
		for ti, t := range w.trees {
			if t == nil || t.m == nil || t.base == nil || w.cfg.InMemory {
				continue
			}
			w.st.OracleEvals++
			if !t.m.IsDirty() && !t.model.Equal(t.base, w.vd) {
				shape := "nonempty"
				if t.model.Len() == 0 {
					shape = "emptied"
				}
				w.fail("clean-but-changed/"+shape, "tree %d reports IsDirty()==false but its contents (%d entries) differ from the version it was loaded from / persisted as (%d entries)", ti, t.model.Len(), t.base.Len())
				return
			}
		}
	}
}

// checkVersions re-observes every captured version and every working tree
// other than the one operated on (C02).
func (w *World) checkVersions(op *Op) {
	for vi, v := range w.vers {
		if v == nil || v.dead || !v.obsOK {
			continue
		}
		w.st.OracleEvals++
		obs, r, how := w.observeVersion(v, true)
		if r.bad() {
			w.fail("version-unreadable/"+v.kind+"/after-"+op.K, "version %d (%s) can no longer be read via %s: %s", vi, v.kind, how, r)
			return
		}
		if !sameStrs(obs, v.obs) {
			w.fail("version-changed/"+v.kind+"/after-"+op.K, "version %d (%s) changed after %s: %s", vi, v.kind, op.K, firstDiff(obs, v.obs))
			return
		}
		if v.kind == "root" {
			// also through the shared cache
			m, r := w.loadRoot(v.root, v.disk, asNodeCache(w.cache), nil)
			if r.bad() {
				w.fail("version-unreadable/root-cached/after-"+op.K, "root version %d cannot be loaded through the cache: %s", vi, r)
				return
			}
			obs, r := w.observe(m)
			if r.bad() || !sameStrs(obs, v.obs) {
				w.fail("version-changed/root-cached/after-"+op.K, "root version %d read through the shared cache changed after %s: %s %s", vi, op.K, r, firstDiff(obs, v.obs))
				return
			}
		}
	}
	for ti, t := range w.trees {
		if t == nil || t.m == nil || ti == op.T {
			continue
		}
		obs, r := w.observe(t.m)
		if r.bad() {
			w.fail("other-tree-unreadable/after-"+op.K, "tree %d unreadable after op on tree %d: %s", ti, op.T, r)
			return
		}
		if !sameStrs(obs, w.modelObs(t.model)) {
			w.fail("other-tree-changed/after-"+op.K, "tree %d changed by %s on tree %d: %s", ti, op.K, op.T, firstDiff(obs, w.modelObs(t.model)))
			return
		}
	}
}

// observeVersion reads a captured version's contents: clones via Iter, cursors by
// walking Min/Forward, roots via a fresh cache-less LoadMast.
func (w *World) observeVersion(v *Version, fresh bool) ([]string, callResult, string) {
	switch v.kind {
	case "clone":
		obs, r := w.observe(v.m)
		return obs, r, "Iter"
	case "cursor":
		obs, r := w.walkCursor(v.cur, v.snap.Len())
		return obs, r, "cursor walk"
	case "root":
		m, r := w.loadRoot(v.root, v.disk, nil, w.disks[v.disk].View())
		if r.bad() {
			return nil, r, "LoadMast"
		}
		obs, r := w.observe(m)
		return obs, r, "LoadMast+Iter"
	}
	return nil, callResult{}, "?"
}

// ---- op execution ----

func (w *World) exec(op *Op) {
	w.log.Str(op.K)
	switch op.K {
	case "ins":
		w.opInsert(op)
	case "del":
		w.opDelete(op)
	case "get":
		w.opGet(op)
	case "size":
		w.opSize(op)
	case "iter":
		w.opIter(op)
	case "seek":
		w.opSeek(op)
	case "cur":
		w.opCursor(op)
	case "clone":
		w.opClone(op)
	case "cursor":
		w.opCursorVersion(op)
	case "fork":
		w.opFork(op)
	case "persist":
		w.opPersist(op)
	case "copersist":
		w.opCoPersist(op)
	case "fill":
		w.opFill(op)
	case "replica":
		w.opReplica(op)
	case "reload":
		w.opReload(op)
	case "restart":
		w.opRestart(op)
	case "diff":
		w.opDiff(op)
	case "difflinks":
		w.opDiffLinks(op)
	case "probe":
		w.opProbe(op)
	case "newtree":
		w.opNewTree(op)
	case "canon":
		w.opCanon(op)
	case "bulk":
		w.opBulk(op)
	case "rootcheck":
		w.opRootCheck(op)
	case "rebf":
		w.opReBF(op)
	default:
		// unknown op kinds are ignored (forward compatibility of replay files)
	}
}

func (w *World) keyOK(k int) bool { return k >= 0 && k < w.cfg.U }

func (w *World) opInsert(op *Op) {
	t := w.tree(op.T)
	if t == nil || !w.keyOK(op.Key) {
		return
	}
	key, val := w.kd.Key(op.Key), w.vd.Val(op.Val)
	if w.faultedOp(op, t, func() error { return t.m.Insert(ctx, key, val) }, func() {
		if old, ok := t.model.Get(op.Key); !ok || w.vd.Distinct(old, op.Val) {
			t.modKeys[op.Key] = true
		}
		t.model.Put(op.Key, op.Val)
	}) {
		return
	}
	r := guard(func() error { return t.m.Insert(ctx, key, val) })
	if r.bad() {
		w.failFor("C01", "insert-fails", "Insert(key#%d) on healthy store: %s", op.Key, r)
		return
	}
	if old, ok := t.model.Get(op.Key); !ok || w.vd.Distinct(old, op.Val) {
		t.modKeys[op.Key] = true
	}
	t.model.Put(op.Key, op.Val)
	if int(t.m.Height()) != t.baseHeight {
		t.hChanged = true
	}
	w.sanityEvery(t, "ins")
}

func (w *World) opDelete(op *Op) {
	t := w.tree(op.T)
	if t == nil || !w.keyOK(op.Key) {
		return
	}
	key, val := w.kd.Key(op.Key), w.vd.Val(op.Val)
	cur, present := t.model.Get(op.Key)
	shouldOK := present && !w.vd.Distinct(cur, op.Val)
	if op.F == "nilval" {
		// the untyped nil as the value to match: only an entry whose stored value is nil matches
		val = nil
		shouldOK = present && w.vd.Name == "nil"
		w.st.Probes["delete-with-untyped-nil-value"]++
	}
	if w.faultedOp(op, t, func() error { return t.m.Delete(ctx, key, val) }, func() {
		if shouldOK {
			t.model.Del(op.Key)
			t.modKeys[op.Key] = true
		}
	}) {
		return
	}
	if t.unsure {
		guard(func() error { return t.m.Delete(ctx, key, val) })
		return
	}
	hBefore := int(t.m.Height())
	r := guard(func() error { return t.m.Delete(ctx, key, val) })
	if r.err == nil && r.panicked == nil && hBefore-int(t.m.Height()) >= 2 {
		w.st.Probes["delete-shrank-two-or-more-levels"]++
	}
	if r.panicked != nil {
		w.failFor("C01", "delete-panics", "Delete(key#%d,val#%d) present=%v: %s", op.Key, op.Val, present, r)
		return
	}
	switch {
	case shouldOK && r.err != nil:
		w.failFor("C01", "delete-present-fails", "Delete(key#%d) of present entry: %s", op.Key, r)
		return
	case !shouldOK && r.err == nil:
		kind := "absent"
		if present {
			kind = "wrong-value"
		}
		w.failFor("C01", "delete-"+kind+"-succeeds", "Delete(key#%d,val#%d) returned nil although %s", op.Key, op.Val, kind)
		return
	}
	if shouldOK {
		t.model.Del(op.Key)
		t.modKeys[op.Key] = true
		if t.model.Len() == 0 {
			w.st.Probes["emptied-tree"]++
		}
	}
	if int(t.m.Height()) != t.baseHeight {
		t.hChanged = true
	}
	w.sanityEvery(t, "del")
}

// faultedOp runs a modifying op with one Load call of that op failing (flavour "loadfault",
// index op.N). Whatever the op returns, the tree is from then on judged only by oracles that do
// not need the model (shape, size-vs-reachable, content addressing of what it persists).
func (w *World) faultedOp(op *Op, t *Tree, call func() error, onSuccess func()) bool {
	if op.F == "marfault" && w.seams != nil {
		// one Marshal call made by this op outside any key comparison (a layer computation)
		// fails. An operation that returns an error must have left the tree as it was and one
		// that returns nil took effect as usual: the tree stays under every model-based oracle.
		w.seams.reset()
		w.seams.marOutsideCmpOnly = true
		w.seams.failMar = op.N
		before := w.seams.fired["marshal-fail"]
		r := guard(call)
		w.seams.failMar = 0
		if w.seams.fired["marshal-fail"] != before {
			w.st.Faults["marshal-fail"]++
			if r.err != nil {
				w.st.Probes["modifying-op-failed-under-marshal-fault"]++
			} else {
				w.st.Probes["marshal-fault-absorbed"]++
			}
		}
		if r.panicked != nil {
			t.unsure = true
			return true
		}
		if r.err == nil {
			onSuccess()
		}
		if int(t.m.Height()) != t.baseHeight {
			t.hChanged = true
		}
		w.sanity(t, "faulted-"+op.K)
		return true
	}
	if op.F != "loadfault" || w.cfg.InMemory {
		return false
	}
	d := w.disks[t.disk]
	d.BeginCall()
	d.FailLoadAt, d.FailLoadKind = op.N, "fail"
	before := d.Fired["load-fail"]
	r := guard(call)
	d.ClearFaults()
	if w.prop == "C04" {
		// canonical form is judged across failed operations too: an operation that returned an
		// error must have left the tree as it was (so the model stands); one that returned nil
		// took effect. The tree stays under the model-based oracles.
		if d.Fired["load-fail"] != before {
			w.st.Faults["load-fail"]++
		}
		if r.panicked != nil {
			t.unsure = true
			return true
		}
		if r.err == nil {
			onSuccess()
		} else if d.Fired["load-fail"] != before {
			w.st.Probes["modifying-op-failed-under-load-fault"]++
		}
		if int(t.m.Height()) != t.baseHeight {
			t.hChanged = true
		}
		w.sanity(t, "faulted-"+op.K)
		return true
	}
	if d.Fired["load-fail"] == before {
		// the fault did not fire: the op ran normally; apply the model update by re-dispatching
		// is not possible (already executed) — treat the tree as unsure as well, conservatively
		t.unsure = true
		return true
	}
	w.st.Faults["load-fail"]++
	t.unsure = true
	if r.err != nil {
		w.st.Probes["modifying-op-failed-under-load-fault"]++
	}
	return true
}

func (w *World) opGet(op *Op) {
	t := w.tree(op.T)
	if t == nil || !w.keyOK(op.Key) {
		return
	}
	key := w.kd.Key(op.Key)
	wantV, want := t.model.Get(op.Key)
	var found bool
	var got interface{}
	r := guard(func() error {
		var err error
		if op.F == "iface" {
			// a destination that can hold anything: it must receive exactly the stored value
			// (nil for a nil value), whatever the configured example type is
			var dst interface{}
			found, err = t.m.Get(ctx, key, &dst)
			got = dst
			return err
		}
		if w.vd.Name == "nil" {
			found, err = t.m.Get(ctx, key, nil)
			return err
		}
		pv := reflect.New(reflect.TypeOf(w.vd.Like()))
		found, err = t.m.Get(ctx, key, pv.Interface())
		got = pv.Elem().Interface()
		return err
	})
	if r.bad() {
		w.failFor("C01", "get-fails", "Get(key#%d): %s", op.Key, r)
		return
	}
	if found != want {
		w.failFor("C01", "get-wrong-presence", "Get(key#%d) found=%v, model present=%v", op.Key, found, want)
		return
	}
	if found && op.F == "iface" && w.vd.Name == "nil" && got != nil {
		w.failFor("C01", "get-wrong-value", "Get(key#%d) into a *interface{} = %s, the stored value is nil", op.Key, valRepr(got))
		return
	}
	if found && w.vd.Name != "nil" && !w.vd.Same(got, wantV) {
		w.failFor("C01", "get-wrong-value", "Get(key#%d) = %s, model %s", op.Key, valRepr(got), valRepr(w.vd.Val(wantV)))
		return
	}
	w.sanityEvery(t, "get")
}

func (w *World) sanityEvery(t *Tree, after string) {
	n := w.cfg.CheckEvery
	if n <= 1 || w.opIdx%n == 0 {
		w.sanity(t, after)
	}
}

func (w *World) opSize(op *Op) {
	t := w.tree(op.T)
	if t == nil {
		return
	}
	if int(t.m.Size()) != t.model.Len() {
		w.failFor("C01", "size-wrong/size", "Size()=%d model=%d", t.m.Size(), t.model.Len())
	}
}

func (w *World) opIter(op *Op) {
	t := w.tree(op.T)
	if t == nil {
		return
	}
	var out []string
	stop := op.N
	r := guard(func() error {
		return t.m.Iter(ctx, func(k, v interface{}) error {
			out = append(out, w.obsEntry(k, v))
			if stop > 0 && len(out) >= stop {
				return mast.ErrIterDone
			}
			return nil
		})
	})
	if r.bad() {
		w.failFor("C01", "iter-fails/iter", "Iter(stop=%d): %s", stop, r)
		return
	}
	want := w.modelObs(t.model)
	if stop > 0 && len(want) > stop {
		want = want[:stop]
	}
	if !sameStrs(out, want) {
		w.failFor("C01", "iter-wrong-sequence", "Iter(stop=%d): %s", stop, firstDiff(out, want))
		return
	}
	w.sanityEvery(t, "iter")
}

func (w *World) opSeek(op *Op) {
	t := w.tree(op.T)
	if t == nil || !w.keyOK(op.Key) {
		return
	}
	if !w.sanity(t, "pre-seek") {
		return
	}
	var out []string
	stop := op.N
	r := guard(func() error {
		return t.m.SeekIter(ctx, w.kd.Key(op.Key), func(k, v interface{}) error {
			out = append(out, w.obsEntry(k, v))
			if stop > 0 && len(out) >= stop {
				return mast.ErrIterDone
			}
			return nil
		})
	})
	_, present := t.model.Get(op.Key)
	pk := "absent"
	if present {
		pk = "present"
	}
	if t.model.Len() == 0 {
		pk = "empty"
	}
	if r.bad() {
		w.failFor("C10", "seekiter-fails/"+pk, "SeekIter(key#%d): %s", op.Key, r)
		return
	}
	all := w.modelObs(t.model)
	want := all[t.model.Ceil(op.Key):]
	if stop > 0 && len(want) > stop {
		want = want[:stop]
	}
	w.st.OracleEvals++
	if !sameStrs(out, want) {
		w.failFor("C10", "seekiter-wrong/"+pk, "SeekIter(key#%d, stop=%d) %s probe: %s", op.Key, stop, pk, firstDiff(out, want))
		return
	}
	w.sanityEvery(t, "seek")
}

// opCursor runs a cursor script: position (min|max|ceil) then moves.
func (w *World) opCursor(op *Op) {
	t := w.tree(op.T)
	if t == nil {
		return
	}
	if !w.sanity(t, "pre-cursor") {
		return
	}
	ents := t.model.Entries()
	all := w.modelObs(t.model)
	n := len(ents)
	shape := "nonempty"
	if n == 0 {
		shape = "empty"
	}
	var c *mast.Cursor
	r := guard(func() error {
		var err error
		c, err = t.m.Cursor(ctx)
		return err
	})
	if r.bad() {
		w.failFor("C10", "cursor-open-fails/"+shape, "Cursor(): %s", r)
		return
	}
	pos := 0 // model position; n means "no entry"
	r = guard(func() error {
		switch op.F {
		case "max":
			pos = n - 1
			if n == 0 {
				pos = n
			}
			return c.Max(ctx)
		case "ceil":
			if !w.keyOK(op.Key) {
				return nil
			}
			pos = t.model.Ceil(op.Key)
			return c.Ceil(ctx, w.kd.Key(op.Key))
		default:
			pos = 0
			return c.Min(ctx)
		}
	})
	place := op.F
	if place == "" {
		place = "min"
	}
	if r.bad() {
		w.failFor("C10", "cursor-"+place+"-fails/"+shape, "%s: %s", place, r)
		return
	}
	check := func(what string) bool {
		var k, v interface{}
		var ok bool
		r := guard(func() error { k, v, ok = c.Get(); return nil })
		w.st.OracleEvals++
		if r.bad() {
			w.failFor("C10", "cursor-get-panics/"+what, "Get after %s: %s", what, r)
			return false
		}
		wantOK := pos >= 0 && pos < n
		if ok != wantOK {
			w.failFor("C10", "cursor-"+what+"/wrong-presence", "after %s cursor has entry=%v, sorted list says %v (pos %d of %d)", what, ok, wantOK, pos, n)
			return false
		}
		if ok {
			got := w.obsEntry(k, v)
			if got != all[pos] {
				w.failFor("C10", "cursor-"+what+"/wrong-entry", "after %s cursor at %s, sorted list says %s (pos %d of %d)", what, got, all[pos], pos, n)
				return false
			}
		}
		return true
	}
	if !check(place) {
		return
	}
	// a placement that yields "no entry" (empty tree, probe above the maximum) leaves
	// nothing to step from: further moves are unspecified by the property
	offEnd := pos < 0 || pos >= n
	for _, mv := range op.S {
		if offEnd {
			break // after stepping off an end the position is "no entry"; further moves are unspecified
		}
		what := "forward"
		r := guard(func() error {
			if mv >= 0 {
				return c.Forward(ctx)
			}
			what = "backward"
			return c.Backward(ctx)
		})
		if mv >= 0 {
			pos++
		} else {
			pos--
		}
		if r.bad() {
			w.failFor("C10", "cursor-"+what+"-fails", "%s: %s", what, r)
			return
		}
		if pos < 0 || pos >= n {
			offEnd = true
		}
		if !check(what) {
			return
		}
	}
}

// opBulk inserts N pseudo-random entries without per-insert oracles (big-tree profiles).
func (w *World) opBulk(op *Op) {
	t := w.tree(op.T)
	if t == nil {
		return
	}
	bg := NewGen(uint64(op.Val))
	for i := 0; i < op.N; i++ {
		k := bg.Intn(w.cfg.U)
		v := bg.Intn(1000)
		r := guard(func() error { return t.m.Insert(ctx, w.kd.Key(k), w.vd.Val(v)) })
		if r.bad() {
			w.failFor("C01", "insert-fails", "bulk Insert(key#%d): %s", k, r)
			return
		}
		if old, ok := t.model.Get(k); !ok || w.vd.Distinct(old, v) {
			t.modKeys[k] = true
		}
		t.model.Put(k, v)
	}
	if int(t.m.Height()) != t.baseHeight {
		t.hChanged = true
	}
	w.st.Probes["bulk"]++
	w.sanity(t, "bulk")
}

// opFill inserts absent keys (ascending key index, starting at op.Key) until the tree holds
// exactly op.N entries: sizes that sit exactly on a grow / shrink threshold.
func (w *World) opFill(op *Op) {
	t := w.tree(op.T)
	if t == nil || t.unsure {
		return
	}
	for k := op.Key; k < w.cfg.U && t.model.Len() < op.N; k++ {
		if _, ok := t.model.Get(k); ok {
			continue
		}
		v := k % 50
		r := guard(func() error { return t.m.Insert(ctx, w.kd.Key(k), w.vd.Val(v)) })
		if r.bad() {
			w.failFor("C01", "insert-fails", "fill Insert(key#%d): %s", k, r)
			return
		}
		t.modKeys[k] = true
		t.model.Put(k, v)
	}
	if int(t.m.Height()) != t.baseHeight {
		t.hChanged = true
	}
	if t.model.Len() == op.N {
		w.st.Probes["filled-to-threshold-size"]++
	}
	w.sanity(t, "fill")
}

func (w *World) addVersion(v *Version) int {
	w.vers = append(w.vers, v)
	return len(w.vers) - 1
}

func (w *World) opClone(op *Op) {
	v := &Version{kind: "clone", dead: true}
	w.addVersion(v) // every clone/cursor/persist op takes exactly one version slot
	t := w.tree(op.T)
	if t == nil {
		return
	}
	var c mast.Mast
	r := guard(func() error {
		var err error
		c, err = t.m.Clone(ctx)
		return err
	})
	if r.bad() {
		w.failFor("C01", "clone-fails", "Clone(): %s", r)
		return
	}
	*v = Version{kind: "clone", m: &c, disk: t.disk, snap: t.model.Clone()}
	obs, r := w.observe(v.m)
	if r.bad() || !sameStrs(obs, w.modelObs(v.snap)) {
		w.failFor("C01", "clone-wrong-contents", "fresh clone differs from its source: %s %s", r, firstDiff(obs, w.modelObs(v.snap)))
		return
	}
	v.obs, v.obsOK = obs, true
	w.st.Probes["clone"]++
}

// walkCursor observes the version held by a positioned cursor (at its minimum):
// n-1 steps forward collecting entries, then n-1 steps backward to return to the start.
func (w *World) walkCursor(c *mast.Cursor, n int) ([]string, callResult) {
	var out []string
	r := guard(func() error {
		for i := 0; i < n; i++ {
			k, v, ok := c.Get()
			if !ok {
				out = append(out, "<no entry>")
				return nil
			}
			out = append(out, w.obsEntry(k, v))
			if i < n-1 {
				if err := c.Forward(ctx); err != nil {
					return err
				}
			}
		}
		for i := 0; i < n-1; i++ {
			if err := c.Backward(ctx); err != nil {
				return err
			}
		}
		return nil
	})
	return out, r
}

// opCursorVersion: an open cursor is an implicit clone. Its contents are observable
// only by navigation; it is retained and re-walked after every later operation (C02).
func (w *World) opCursorVersion(op *Op) {
	v := &Version{kind: "cursor", dead: true}
	w.addVersion(v)
	t := w.tree(op.T)
	if t == nil {
		return
	}
	var c *mast.Cursor
	r := guard(func() error {
		var err error
		c, err = t.m.Cursor(ctx)
		if err != nil {
			return err
		}
		return c.Min(ctx)
	})
	if r.bad() {
		w.failFor("C10", "cursor-open-fails/version", "Cursor()+Min(): %s", r)
		return
	}
	n := t.model.Len()
	if n == 0 {
		return
	}
	*v = Version{kind: "cursor", cur: c, disk: t.disk, snap: t.model.Clone(), dead: true}
	// the observation method must itself be repeatable on the unchanged version,
	// else this version is not used as a witness (navigation is C10's subject)
	o1, r1 := w.walkCursor(c, n)
	o2, r2 := w.walkCursor(c, n)
	if r1.bad() || r2.bad() || !sameStrs(o1, o2) || !sameStrs(o1, w.modelObs(v.snap)) {
		w.st.Probes["cursor-version-not-observable"]++
		return
	}
	v.obs, v.obsOK, v.dead = o1, true, false
	w.st.Probes["cursor-version"]++
}

// opFork makes a new working tree from a clone (a clone that will be modified).
func (w *World) opFork(op *Op) {
	t := w.tree(op.T)
	if t == nil {
		return
	}
	var c mast.Mast
	src := t
	if v := w.version(op.A); v != nil && v.kind == "clone" {
		// clone of a clone
		r := guard(func() error {
			var err error
			c, err = v.m.Clone(ctx)
			return err
		})
		if r.bad() {
			w.failFor("C01", "clone-fails", "Clone() of clone: %s", r)
			return
		}
		nt := &Tree{m: &c, model: v.snap.Clone(), disk: v.disk, modKeys: map[int]bool{}, lineage: w.nextLineage}
		w.nextLineage++
		w.st.Probes["clone-of-clone"]++
		w.placeTree(op.N, nt)
		w.sanity(nt, "fork")
		return
	}
	r := guard(func() error {
		var err error
		c, err = src.m.Clone(ctx)
		return err
	})
	if r.bad() {
		w.failFor("C01", "clone-fails", "Clone(): %s", r)
		return
	}
	nt := &Tree{m: &c, model: src.model.Clone(), disk: src.disk, modKeys: map[int]bool{}, lineage: src.lineage}
	for k := range src.modKeys {
		nt.modKeys[k] = true
	}
	nt.base, nt.baseRoot, nt.baseHeight = src.base, src.baseRoot, src.baseHeight
	nt.hChanged = src.hChanged // a height change since the base version is inherited by the clone
	w.placeTree(op.N, nt)
	w.st.Probes["fork"]++
	w.sanity(nt, "fork")
}

const maxTrees = 4

func (w *World) placeTree(slot int, t *Tree) int {
	if len(w.trees) < maxTrees {
		w.trees = append(w.trees, t)
		return len(w.trees) - 1
	}
	if slot < 0 || slot >= len(w.trees) {
		slot = len(w.trees) - 1
	}
	w.trees[slot] = t
	return slot
}

func (w *World) opNewTree(op *Op) {
	d := op.N
	if d < 0 || d >= len(w.disks) {
		d = 0
	}
	t, r := w.newEmptyTree(d)
	if r.bad() {
		w.failFor("C01", "newtree-fails", "creating an empty tree: %s", r)
		return
	}
	w.placeTree(op.T, t)
}

// ---- persist through the flush scheduler ----

// FlushResult describes one MakeRoot executed under the scheduler.
type FlushResult struct {
	root        *mast.Root
	res         callResult
	steps       int
	maxInflight int
	failed      int // injected failures (fail or acklost) that fired
	okNames     []string
	failNames   []string
	deadlock    bool
	leftParked  int
	order       []string
	cancelled   bool // the caller's context was cancelled while the flush was running
}

// schedMakeRoot runs MakeRoot with every Store parked in the disk and released
// one at a time, at quiescence, in an order (and with outcomes) chosen by the chooser.
// faultPermille is the per-Store probability of an injected failure.
func (w *World) schedMakeRoot(m *mast.Mast, d *SimDisk, faultPermille int, failAt int, failKind string, stall bool) *FlushResult {
	fr := &FlushResult{}
	if w.cfg.InMemory {
		fr.res = guard(func() error {
			var err error
			fr.root, err = m.MakeRoot(ctx)
			return err
		})
		return fr
	}
	d.SetScheduled(true)
	done := make(chan struct{})
	mctx := ctx
	var cancel context.CancelFunc
	cancelAt := -1
	if w.cancelArm {
		// the caller's context is cancelled after cancelAt Stores completed; the store itself
		// ignores the context (as the in-memory and file stores do)
		cancelAt, w.cancelArm = w.cancelAt, false
		mctx, cancel = context.WithCancel(ctx)
		defer cancel()
	}
	go func() {
		defer close(done)
		fr.res = guard(func() error {
			var err error
			fr.root, err = m.MakeRoot(mctx)
			return err
		})
	}()
	stalled := -1
	released := 0
	for {
		synctest.Wait()
		finished := false
		select {
		case <-done:
			finished = true
		default:
		}
		if !finished && cancel != nil && !fr.cancelled && released >= cancelAt {
			fr.cancelled = true
			w.st.Faults["ctx-cancel"]++
			cancel()
			continue
		}
		parked := d.ParkedSorted()
		if finished {
			fr.leftParked = len(parked)
			// drain anything still parked so no goroutine leaks
			for len(parked) > 0 {
				d.Release(parked[0], "ok")
				synctest.Wait()
				parked = d.ParkedSorted()
			}
			break
		}
		if len(parked) == 0 {
			fr.deadlock = true
			break
		}
		if len(parked) > fr.maxInflight {
			fr.maxInflight = len(parked)
		}
		cands := parked
		if stall {
			if stalled < 0 {
				stalled = parked[w.ch.Intn(len(parked))].ID
				w.st.Faults["store-stall"]++
			}
			if len(parked) > 1 {
				cands = cands[:0:0]
				for _, p := range parked {
					if p.ID != stalled {
						cands = append(cands, p)
					}
				}
			}
		}
		p := cands[w.ch.Intn(len(cands))]
		outcome := "ok"
		released++
		if failAt > 0 && released == failAt {
			outcome = failKind
		} else if faultPermille > 0 && w.ch.Intn(1000) < faultPermille {
			if w.ch.Intn(2) == 0 {
				outcome = "fail"
			} else {
				outcome = "acklost"
			}
		}
		if outcome == "ok" {
			fr.okNames = append(fr.okNames, p.Name)
		} else {
			fr.failed++
			fr.failNames = append(fr.failNames, p.Name)
		}
		fr.order = append(fr.order, p.Name[:6]+":"+outcome)
		fr.steps++
		d.Release(p, outcome)
	}
	d.SetScheduled(false)
	if len(fr.order) >= 2 {
		w.st.Sched[fnv64([]byte(strings.Join(fr.order, ",")))] = true
	}
	w.st.Steps += fr.steps
	if fr.maxInflight > w.st.MaxInflight {
		w.st.MaxInflight = fr.maxInflight
	}
	if fr.maxInflight >= 40 {
		w.st.Probes["flush-window-40-saturated"]++
	}
	return fr
}

// reachByObservation: names Loaded while a fresh cache-less LoadMast(root) on a
// fault-free view of the durable map is fully iterated. Also returns the observation.
func (w *World) reachByObservation(root *mast.Root, d int) (names []string, obs []string, missing []string, r callResult) {
	view := w.disks[d].View()
	m, r := w.loadRoot(root, d, nil, view)
	if r.bad() {
		return view.LoadedNames(), nil, view.Missing, r
	}
	obs, r = w.observe(m)
	return view.LoadedNames(), obs, view.Missing, r
}

func (w *World) opPersist(op *Op) {
	if w.cfg.InMemory {
		return
	}
	v := &Version{kind: "root", dead: true}
	w.addVersion(v)
	t := w.tree(op.T)
	if t == nil {
		return
	}
	d := w.disks[t.disk]
	faults := 0
	failAt := 0
	failKind := ""
	stall := false
	switch op.F {
	case "faults":
		faults = op.N
	case "failat":
		failAt = op.N
		failKind = "fail"
		if op.Val == 1 {
			failKind = "acklost"
		}
	case "stall":
		stall = true
	case "cancel":
		w.cancelArm, w.cancelAt = true, op.N
	}
	wasDirty := t.m.IsDirty()
	preObs := w.modelObs(t.model)
	if t.unsure {
		if o, r := w.observe(t.m); !r.bad() {
			preObs = o
		} else {
			return
		}
	}
	d.BeginCall()
	fr := w.schedMakeRoot(t.m, d, faults, failAt, failKind, stall)
	_, stored, _, storeCalls := d.Window()
	w.log.Str(strings.Join(fr.order, ","))
	// the write monitor is consulted before anything is read back: bytes stored under a name
	// that is not their hash are not fed to the decoder
	if w.monitorTripped(d) {
		return
	}
	if fr.deadlock {
		w.failFor("C03", "flush-deadlock", "MakeRoot neither returned nor has a Store in flight at quiescence (after %d steps)", fr.steps)
		return
	}
	if fr.res.panicked != nil {
		if fr.failed > 0 {
			w.failFor("C03", "makeroot-panics-after-store-failure", "%s", fr.res)
		} else {
			w.failFor("C01", "persist-fails", "MakeRoot on healthy store: %s", fr.res)
		}
		return
	}
	if fr.failed > 0 {
		w.st.Probes["flush-with-failed-store"]++
		w.st.OracleEvals++
		if fr.res.err == nil {
			w.failFor("C03", "store-failure-not-reported", "%d Store call(s) failed (%v) but MakeRoot returned success", fr.failed, fr.order)
			return
		}
		// invariant 3: the tree stays fully usable after the error
		obs, r := w.observe(t.m)
		if r.bad() {
			w.failFor("C03", "tree-unusable-after-failed-flush", "after MakeRoot reported %v the tree cannot be iterated: %s", fr.res.err, r)
			return
		}
		if !sameStrs(obs, preObs) {
			w.failFor("C03", "tree-changed-by-failed-flush", "after failed MakeRoot contents differ: %s", firstDiff(obs, preObs))
			return
		}
		t.flushFailedBefore = true
		return
	}
	if fr.res.err != nil && fr.cancelled {
		// giving up because the caller cancelled is an error like any other: the tree stays
		// usable and unchanged, and a later MakeRoot must succeed
		w.st.Probes["flush-cancelled-reported-error"]++
		obs, r := w.observe(t.m)
		if r.bad() {
			w.failFor("C03", "tree-unusable-after-failed-flush", "after MakeRoot reported %v (context cancelled) the tree cannot be iterated: %s", fr.res.err, r)
			return
		}
		if !sameStrs(obs, preObs) {
			w.failFor("C03", "tree-changed-by-failed-flush", "after MakeRoot failed on a cancelled context contents differ: %s", firstDiff(obs, preObs))
			return
		}
		t.flushFailedBefore = true
		return
	}
	if fr.cancelled {
		w.st.Probes["flush-cancelled-midway-returned-root"]++
	}
	if fr.res.err != nil && w.cfg.OneSided != "" && fr.failed == 0 {
		// only one of the two example types is configured: refusing to persist is fine (what must
		// not happen is a root that does not read back)
		w.st.Probes["persist-refused-one-sided-example-types"]++
		if obs, r := w.observe(t.m); r.bad() || !sameStrs(obs, preObs) {
			w.failFor("C01", "contents-mismatch/persist", "after MakeRoot refused a one-sided configuration the tree changed: %s %s", r, firstDiff(obs, preObs))
		}
		return
	}
	if fr.res.err != nil && w.cfg.Marshaler == "json" && w.hasUnmarshalable(t.model) {
		// the tree holds a value the marshaler rejects: an error is the right answer
		w.st.Probes["persist-rejected-unmarshalable-value"]++
		if obs, r := w.observe(t.m); r.bad() || !sameStrs(obs, preObs) {
			w.failFor("C01", "contents-mismatch/persist", "after MakeRoot rejected an unmarshalable value the tree changed: %s %s", r, firstDiff(obs, preObs))
		}
		return
	}
	if fr.res.err != nil {
		if t.flushFailedBefore {
			// liveness once faults stop: a retry with a healthy store must succeed
			w.failFor("C03", "retry-fails-after-faults-stopped", "an earlier MakeRoot of this tree failed on injected Store errors; with the store healthy again MakeRoot still fails: %s", fr.res)
			return
		}
		w.failFor("C01", "persist-fails", "MakeRoot on healthy store: %s", fr.res)
		return
	}
	if t.flushFailedBefore {
		w.st.Probes["retry-after-failed-flush-succeeded"]++
		t.flushFailedBefore = false
	}
	if fr.leftParked > 0 {
		w.failFor("C03", "returned-with-writes-in-flight", "MakeRoot returned success while %d Store call(s) had not completed", fr.leftParked)
		return
	}
	root := fr.root
	if w.cfg.Marshaler == "json" && w.hasUnmarshalable(t.model) && wasDirty {
		w.st.Probes["persist-accepted-unmarshalable-value"]++
		if w.softFor("C08", "unmarshalable-value-persisted", "MakeRoot returned a root although the tree holds a value the marshaler rejects: the stored bytes cannot be a function of the entries") {
			return
		}
	}
	// C03 invariant 1: complete and durable (checked on the durable map = after a crash)
	w.st.OracleEvals++
	reach, obs, missing, r := w.reachByObservation(root, t.disk)
	readBackOK := true
	if len(missing) > 0 {
		if w.prop == "C05" {
			w.fail("persisted-root-unloadable/missing-nodes", "returned root reaches %d node(s) that are not in the store (e.g. %s); %d Store calls this flush", len(missing), missing[0], storeCalls)
			return
		}
		if w.softFor("C03", "root-incomplete", "returned root reaches %d node(s) that are not in the store (e.g. %s); %d Store calls this flush", len(missing), missing[0], storeCalls) {
			return
		}
		readBackOK = false
	} else if r.bad() {
		if w.softFor("C05", "persisted-root-unloadable"+w.cfgPredicate(), "root just returned cannot be loaded/iterated from the store: %s", r) {
			return
		}
		readBackOK = false
	} else if !sameStrs(obs, preObs) {
		if w.softFor("C05", "persisted-contents-differ"+w.cfgPredicate(), "contents loaded from the returned root differ from the tree's: %s", firstDiff(obs, preObs)) {
			return
		}
		readBackOK = false
	} else if !t.unsure && int(root.Size) != t.model.Len() {
		if w.softFor("C05", "root-size-wrong", "Root.Size=%d, entries=%d", root.Size, t.model.Len()) {
			return
		}
		readBackOK = false
	}
	if !readBackOK {
		// the version is not registered as a witness; the tree itself goes on under its own oracles
		t.base, t.baseRoot = nil, nil
		w.sanity(t, "persist")
		return
	}
	w.st.Probes["persist-ok"]++
	if len(stored) > 1 && !isSortedPrefixOrder(fr.order) {
		w.st.Probes["non-fifo-completion"]++
	}
	w.judgePersist(op, t, root, reach, stored, wasDirty)
	if w.stopped() {
		return
	}
	// register version
	*v = Version{kind: "root", root: root, disk: t.disk, snap: t.model.Clone(), obs: obs, obsOK: true}
	t.base = t.model.Clone()
	t.baseRoot = root
	t.baseHeight = int(root.Height)
	t.modKeys = map[int]bool{}
	t.hChanged = false
	w.sanity(t, "persist")
}

func isSortedPrefixOrder(order []string) bool {
	return sort.StringsAreSorted(order)
}

func (w *World) opReload(op *Op) {
	v := w.version(op.A)
	if v == nil || v.kind != "root" {
		return
	}
	root := v.root
	if w.cfg.Format == FmtMarshaler && op.T%2 == 1 {
		// legacy root records carry no NodeFormat
		lr := *v.root
		lr.NodeFormat = ""
		root = &lr
		w.st.Probes["reload-legacy-root-record"]++
	}
	if op.F == "json" {
		b, err := json.Marshal(root)
		if err != nil {
			w.failFor("C05", "root-json-marshal", "%v", err)
			return
		}
		// the record is read into a root obtained the usual way (a legacy record, which carries no
		// format name, into a zero Root: the defaults of a new root are not those of an old record)
		r2 := mast.NewRoot(nil)
		if root.NodeFormat == "" {
			r2 = &mast.Root{}
		}
		if err := json.Unmarshal(b, r2); err != nil {
			w.failFor("C05", "root-json-unmarshal", "%v", err)
			return
		}
		root = r2
		w.st.Probes["reload-via-json"]++
	}
	d := v.disk
	m, r := w.loadRoot(root, d, asNodeCache(w.cache), nil)
	if r.bad() {
		w.failFor("C05", "reload-fails", "LoadMast of a root returned by MakeRoot: %s", r)
		return
	}
	w.st.OracleEvals++
	obs, r := w.observe(m)
	if r.bad() {
		w.failFor("C05", "reload-unreadable", "tree reloaded from root cannot be iterated: %s", r)
		return
	}
	if !sameStrs(obs, v.obs) {
		w.failFor("C05", "reload-contents-differ", "reloaded contents differ from what was persisted: %s", firstDiff(obs, v.obs))
		return
	}
	if m.Size() != v.root.Size || m.Height() != v.root.Height || m.BranchFactor() != v.root.BranchFactor {
		_ = root
		w.failFor("C05", "reload-params-differ", "reloaded size/height/bf = %d/%d/%d, root says %d/%d/%d", m.Size(), m.Height(), m.BranchFactor(), v.root.Size, v.root.Height, v.root.BranchFactor)
		return
	}
	nt := &Tree{m: m, model: v.snap.Clone(), disk: d, modKeys: map[int]bool{}, base: v.snap.Clone(), baseRoot: v.root, baseHeight: int(v.root.Height), lineage: w.nextLineage}
	w.nextLineage++
	w.placeTree(op.T, nt)
	w.st.Probes["reload"]++
}

// opRestart simulates a process restart: every in-memory tree, clone and cache
// entry is gone; disks and retained Root records survive.
func (w *World) opRestart(op *Op) {
	if w.cfg.InMemory {
		return
	}
	w.st.Probes["restart"]++
	w.cache = NewSimCache(w.cfg.Cache, w.ch)
	if w.cache != nil && w.prop != "C02" && w.prop != "C11" {
		w.cache.monitor = false
	}
	for _, v := range w.vers {
		if v != nil && v.kind != "root" {
			v.dead = true
		}
	}
	for i, t := range w.trees {
		if t == nil {
			continue
		}
		if t.baseRoot == nil {
			nt, r := w.newEmptyTree(t.disk)
			if r.bad() {
				w.failFor("C01", "newtree-fails", "creating an empty tree: %s", r)
				return
			}
			w.trees[i] = nt
			continue
		}
		m, r := w.loadRoot(t.baseRoot, t.disk, asNodeCache(w.cache), nil)
		if r.bad() {
			w.failFor("C05", "reload-fails", "LoadMast after restart: %s", r)
			return
		}
		nt := &Tree{m: m, model: t.base.Clone(), disk: t.disk, modKeys: map[int]bool{}, base: t.base, baseRoot: t.baseRoot, baseHeight: t.baseHeight, lineage: t.lineage}
		w.trees[i] = nt
		if !w.sanity(nt, "restart") {
			return
		}
	}
}

// handle resolves a ref to a *mast.Mast plus its model (for diffs).
func (w *World) handle(ref int) (m *mast.Mast, model *Model, kind string, ok bool) {
	if ref == refNil {
		return nil, nil, "nil", true
	}
	if ref < refVerBase {
		t := w.tree(ref)
		if t == nil {
			return nil, nil, "", false
		}
		return t.m, t.model, "tree", true
	}
	v := w.version(ref)
	if v == nil {
		return nil, nil, "", false
	}
	switch v.kind {
	case "clone":
		return v.m, v.snap, "clone", true
	case "root":
		m, r := w.loadRoot(v.root, v.disk, asNodeCache(w.cache), nil)
		if r.bad() {
			w.failFor("C05", "reload-fails", "LoadMast for diff: %s", r)
			return nil, nil, "", false
		}
		return m, v.snap, "root", true
	}
	return nil, nil, "", false
}
