package sim

import (
	"bytes"
	"context"
	"errors"
	"fmt"
	"io"
	"os"
	"path/filepath"
	"sort"
	"strings"
	"sync"
	"testing"
	"testing/synctest"
	"time"

	"github.com/anishathalye/porcupine"
	"github.com/aws/aws-sdk-go/aws"
	"github.com/aws/aws-sdk-go/aws/awserr"
	"github.com/aws/aws-sdk-go/aws/request"
	"github.com/aws/aws-sdk-go/service/s3"
	"github.com/jrhy/mast"
	mastfile "github.com/jrhy/mast/persist/file"
	masts3 "github.com/jrhy/mast/persist/s3"
)

// C18 engine: one contract test-bed, three bindings (in-memory store, file store on a
// real scratch directory, S3 adapter over SimS3). The adapters are the real code; only
// the AWS client is a stub.

var errInjS3 = errors.New("sim: injected S3 failure")

// injectedS3Error is what a failing S3 call returns: usually a plain transport error, every
// third time the SDK's RequestCanceled (a per-request deadline of the client expired while the
// caller's own context is alive).
func (s *SimS3) injectedS3Error() error {
	s.errKind++
	if s.errKind%3 == 0 {
		return awserr.New("RequestCanceled", "request context canceled", fmt.Errorf("%w (client-side request deadline)", errInjS3))
	}
	return errInjS3
}

type s3Call struct {
	Op     string
	Bucket string
	Key    string
}

type s3Parked struct {
	id     int
	client int
	op     string
	key    string
	ch     chan string // outcome
}

// SimS3 implements persist/s3.S3Interface.
type SimS3 struct {
	mu      sync.Mutex
	objects map[string][]byte // bucket + "\x00" + key
	Calls   []s3Call
	// fault plan: fail the n-th Put / Get (1-based, 0 = none); body failure after k bytes
	FailPutAt, FailGetAt int
	ThrottlePutAt        int // n-th Put is answered with the SlowDown error code after the body was read
	BodyFailAt           int // n-th Get returns a body that errors after BodyFailAfter bytes
	BodyFailAfter        int
	errKind              int
	BodyFailKind         int // 0: the read returns a transport error; 1: the connection is cut (io.ErrUnexpectedEOF, fewer bytes than Content-Length)
	ThrottleKind         int // which "try again" answer the service gives (code / HTTP status)
	puts, gets           int
	Fired                map[string]int
	scheduled            bool
	parked               []*s3Parked
	nextID               int
}

func NewSimS3() *SimS3 {
	return &SimS3{objects: map[string][]byte{}, Fired: map[string]int{}}
}

func (s *SimS3) park(ctx aws.Context, op, key string) string {
	s.mu.Lock()
	if !s.scheduled {
		s.mu.Unlock()
		return "ok"
	}
	client := -1
	if c, ok := ctx.Value(beClientKey{}).(int); ok {
		client = c
	}
	p := &s3Parked{id: s.nextID, client: client, op: op, key: key, ch: make(chan string)}
	s.nextID++
	s.parked = append(s.parked, p)
	s.mu.Unlock()
	return <-p.ch
}

func (s *SimS3) parkedSorted() []*s3Parked {
	s.mu.Lock()
	defer s.mu.Unlock()
	ps := append([]*s3Parked(nil), s.parked...)
	// by client (each client has at most one call in flight): arrival order is not deterministic
	sort.Slice(ps, func(i, j int) bool {
		if ps[i].client != ps[j].client {
			return ps[i].client < ps[j].client
		}
		return ps[i].id < ps[j].id
	})
	return ps
}

func (s *SimS3) release(p *s3Parked, outcome string) {
	s.mu.Lock()
	for i, q := range s.parked {
		if q == p {
			s.parked = append(s.parked[:i], s.parked[i+1:]...)
			break
		}
	}
	s.mu.Unlock()
	p.ch <- outcome
}

// isInjectedS3 reports whether err is (or carries, the SDK's way, as OrigErr) the simulator's
// injected failure.
func isInjectedS3(err error) bool {
	for i := 0; err != nil && i < 8; i++ {
		if errors.Is(err, errInjS3) {
			return true
		}
		ae, ok := err.(awserr.Error)
		if !ok {
			var target awserr.Error
			if !errors.As(err, &target) {
				return false
			}
			ae = target
		}
		err = ae.OrigErr()
	}
	return false
}

// ctxBody is a response body tied to the request's context, as an HTTP response body is.
type ctxBody struct {
	ctx aws.Context
	r   *bytes.Reader
}

func (b *ctxBody) Read(p []byte) (int, error) {
	if err := b.ctx.Err(); err != nil {
		return 0, err
	}
	return b.r.Read(p)
}
func (b *ctxBody) Close() error { return nil }

type failingBody struct {
	data  []byte
	after int
	pos   int
	err   error
}

func (f *failingBody) Read(p []byte) (int, error) {
	if f.pos >= f.after {
		return 0, f.err
	}
	n := copy(p, f.data[f.pos:f.after])
	f.pos += n
	return n, nil
}
func (f *failingBody) Close() error { return nil }

func (s *SimS3) DeleteObjectWithContext(ctx aws.Context, in *s3.DeleteObjectInput, opts ...request.Option) (*s3.DeleteObjectOutput, error) {
	s.mu.Lock()
	defer s.mu.Unlock()
	s.Calls = append(s.Calls, s3Call{"delete", aws.StringValue(in.Bucket), aws.StringValue(in.Key)})
	delete(s.objects, aws.StringValue(in.Bucket)+"\x00"+aws.StringValue(in.Key))
	return &s3.DeleteObjectOutput{}, nil
}

func (s *SimS3) GetObjectWithContext(ctx aws.Context, in *s3.GetObjectInput, opts ...request.Option) (*s3.GetObjectOutput, error) {
	outcome := s.park(ctx, "get", aws.StringValue(in.Key))
	s.mu.Lock()
	defer s.mu.Unlock()
	s.gets++
	s.Calls = append(s.Calls, s3Call{"get", aws.StringValue(in.Bucket), aws.StringValue(in.Key)})
	if outcome == "fail" || (s.FailGetAt != 0 && s.gets == s.FailGetAt) {
		s.Fired["s3-get-error"]++
		return nil, s.injectedS3Error()
	}
	b, ok := s.objects[aws.StringValue(in.Bucket)+"\x00"+aws.StringValue(in.Key)]
	if !ok {
		return nil, awserr.New(s3.ErrCodeNoSuchKey, "The specified key does not exist.", nil)
	}
	if s.BodyFailAt != 0 && s.gets == s.BodyFailAt {
		s.Fired["s3-body-read-error"]++
		after := s.BodyFailAfter
		if after > len(b) {
			after = len(b)
		}
		var berr error = errInjS3
		if s.BodyFailKind%2 == 1 {
			// what net/http reports when the peer closes before Content-Length bytes arrived
			berr = fmt.Errorf("%w (connection closed mid-body: %w)", io.ErrUnexpectedEOF, errInjS3)
			if after >= len(b) && len(b) > 0 {
				after = len(b) - 1
			}
			if len(b) == 0 {
				berr = errInjS3
			}
		}
		return &s3.GetObjectOutput{Body: &failingBody{data: b, after: after, err: berr}, ContentLength: aws.Int64(int64(len(b)))}, nil
	}
	// like the real client, the response carries the object's Content-Length, and its body can be
	// read only while the context the request was made under is alive
	return &s3.GetObjectOutput{Body: &ctxBody{ctx: ctx, r: bytes.NewReader(append([]byte(nil), b...))}, ContentLength: aws.Int64(int64(len(b)))}, nil
}

func (s *SimS3) PutObjectWithContext(ctx aws.Context, in *s3.PutObjectInput, opts ...request.Option) (*s3.PutObjectOutput, error) {
	// the client reads the body when it sends the request
	var body []byte
	if in.Body != nil {
		body, _ = io.ReadAll(in.Body)
	}
	outcome := s.park(ctx, "put", aws.StringValue(in.Key))
	s.mu.Lock()
	defer s.mu.Unlock()
	s.puts++
	s.Calls = append(s.Calls, s3Call{"put", aws.StringValue(in.Bucket), aws.StringValue(in.Key)})
	if s.ThrottlePutAt != 0 && s.puts == s.ThrottlePutAt {
		// the request (with its body) was sent; the service answers "slow down"
		s.Fired["s3-put-throttled"]++
		answers := []struct {
			code   string
			status int
		}{{"SlowDown", 503}, {"InternalError", 500}, {"ServiceUnavailable", 503}, {"RequestTimeout", 400}}
		a := answers[s.ThrottleKind%len(answers)]
		return nil, awserr.NewRequestFailure(awserr.New(a.code, "Please try again.", errInjS3), a.status, "SIMREQ0001")
	}
	if outcome == "fail" || (s.FailPutAt != 0 && s.puts == s.FailPutAt) {
		s.Fired["s3-put-error"]++
		return nil, s.injectedS3Error()
	}
	s.objects[aws.StringValue(in.Bucket)+"\x00"+aws.StringValue(in.Key)] = body
	return &s3.PutObjectOutput{}, nil
}

// ---- scenario ----

var nameAlphabet = "ABCDEFGHIJKLMNOPQRSTUVWXYZabcdefghijklmnopqrstuvwxyz0123456789_-"

func beName(i int) string {
	// node-name alphabet; 43 characters for most, edge lengths for a few
	x := splitmix64(uint64(i) + 77)
	l := 43
	switch i % 7 {
	case 5:
		l = 1
	case 6:
		l = 64
	}
	b := make([]byte, l)
	for j := range b {
		x = splitmix64(x)
		b[j] = nameAlphabet[x%64]
	}
	if i%5 == 0 && l > 2 {
		b[0], b[1] = '-', '_' // leading dash/underscore
	}
	return string(b)
}

func bePayload(i int) []byte {
	switch i % 6 {
	case 0:
		return []byte{}
	case 1:
		return []byte{0x00}
	case 2:
		return []byte{0xff, 0x00, 0xff, '\n', '\r', 0x00}
	case 3:
		return payloadOf(60 + i)
	case 4:
		return payloadOf(70000 + i) // larger than typical copy buffers
	default:
		return []byte("hello " + fmt.Sprint(i))
	}
}

// GenBackendScenario: ops over one backend binding.
//   K: "store"/"load"; Key: name index; Val: payload index; F: fault ("", "put-error", "get-error", "body-error", "missing-dir")
//   Cfg.KeyD carries the binding: mem | file | s3 ; Cfg.ValD the S3 prefix; Cfg.Cache the bucket
//   Extra["clients"] > 1: ops are dealt round-robin to that many concurrent clients (S3 binding)
func GenBackendScenario(seed uint64, tier string) *Scenario {
	g := NewGen(seed)
	sc := &Scenario{Property: "C18", Engine: "backend", Seed: seed, Extra: map[string]int{}}
	sc.Cfg.KeyD = []string{"mem", "file", "s3", "s3"}[g.Intn(4)]
	sc.Cfg.ValD = []string{"", "node/", "a/b/c/", "x"}[g.Intn(4)]
	sc.Cfg.Cache = []string{"bucket", "b", "my.bucket-2"}[g.Intn(3)]
	sc.Cfg.U = 4 + g.Intn(5)
	if sc.Cfg.KeyD == "s3" && g.Intn(2) == 0 {
		sc.Extra["clients"] = 2 + g.Intn(3)
	}
	// several instances of the back end in one process: same names and prefix, but a different
	// bucket (odd instances) or a different endpoint/client (instance 2), a different directory,
	// a different in-memory store
	sc.Cfg.Disks = 1 + g.Intn(3)
	if sc.Extra["clients"] > 1 {
		sc.Cfg.Disks = 1
	}
	n := g.Range(4, 24)
	written := map[int]int{}
	for i := 0; i < n; i++ {
		name := g.Intn(sc.Cfg.U)
		op := Op{Key: name, T: g.Intn(sc.Cfg.Disks)}
		if sc.Extra["clients"] <= 1 && sc.Cfg.KeyD != "mem" && g.Intn(10) == 0 {
			// somebody else (a clean-up job, a restore from an older backup) removes the object
			// behind the adapter's back; the same node is written again later
			sc.Ops = append(sc.Ops, Op{K: "lose", Key: name, T: op.T})
			if pv, ok := written[name]; ok && g.Intn(2) == 0 {
				sc.Ops = append(sc.Ops, Op{K: "store", Key: name, T: op.T, Val: pv}, Op{K: "load", Key: name, T: op.T})
			}
			continue
		}
		if g.Intn(2) == 0 {
			op.K = "store"
			if pv, ok := written[name]; ok {
				op.Val = pv // a name is only ever written with the same bytes (content addressing)
			} else {
				op.Val = g.Intn(30)
				written[name] = op.Val
			}
			if g.Intn(8) == 0 {
				switch sc.Cfg.KeyD {
				case "s3":
					op.F = []string{"put-error", "put-throttle"}[g.Intn(2)]
				case "file":
					op.F = []string{"missing-dir", "base-is-file"}[g.Intn(2)]
				}
				if _, ok := written[name]; ok && op.F != "" {
					// a failed first write leaves the name unwritten for the model
				}
			}
		} else {
			op.K = "load"
			if g.Intn(8) == 0 && sc.Cfg.KeyD == "s3" {
				op.F = []string{"get-error", "body-error"}[g.Intn(2)]
				op.N = g.Intn(40)
			}
		}
		sc.Ops = append(sc.Ops, op)
	}
	return sc
}

type beEvent struct {
	client         int
	op             Op
	call, ret      int
	err            error
	data           []byte
	injected       bool
}

// RunBackendScenario executes a backend scenario and judges it.
func RunBackendScenario(t *testing.T, sc *Scenario) (w *World) {
	w = bareWorld(sc)
	if sc.Tape != nil {
		w.ch = NewReplayChooser(sc.Seed, sc.Tape)
	}
	defer func() {
		if r := recover(); r != nil && w.viol == nil {
			w.st.Truncated = fmt.Sprintf("panic: %v", r)
		}
	}()
	binding := sc.Cfg.KeyD
	nInst := sc.Cfg.Disks
	if nInst < 1 {
		nInst = 1
	}
	var insts []*beInstance
	var sims []*SimS3
	for i := 0; i < nInst; i++ {
		in := &beInstance{model: map[int][]byte{}}
		switch binding {
		case "mem":
			in.p = mast.NewInMemoryStore()
		case "file":
			base := os.Getenv("VERIF_OUT")
			if base == "" {
				base = os.TempDir()
			}
			in.dir = filepath.Join(base, fmt.Sprintf("be-%d-%x-%d", os.Getpid(), sc.Seed, i))
			os.RemoveAll(in.dir)
			if err := os.MkdirAll(in.dir, 0o755); err != nil {
				w.st.Truncated = "harness: " + err.Error()
				return w
			}
			defer os.RemoveAll(in.dir)
			in.p = mastfile.NewPersistForPath(in.dir)
		case "s3":
			// instance 0: the configured bucket; instance 1: another bucket on the same client;
			// instance 2: the same bucket name on another endpoint (another client)
			in.bucket = sc.Cfg.Cache
			endpoint := "sim://s3"
			if i == 1 {
				in.bucket = sc.Cfg.Cache + "-second"
			}
			if i == 2 || len(sims) == 0 {
				sims = append(sims, NewSimS3())
				if i == 2 {
					endpoint = "sim://s3-other"
				}
			}
			in.s3 = sims[len(sims)-1]
			sp := masts3.NewPersist(in.s3, endpoint, in.bucket, sc.Cfg.ValD)
			in.p = &sp
		default:
			return w
		}
		insts = append(insts, in)
	}
	clients := 1
	if sc.Extra != nil && sc.Extra["clients"] > 1 && binding == "s3" {
		clients = sc.Extra["clients"]
	}
	if clients == 1 {
		w.runBackendSequential(sc, insts)
	} else {
		if p := inBubble(t, func(t *testing.T) { w.runBackendConcurrent(sc, insts[0].p, insts[0].s3, clients) }); p != nil {
			panic(p)
		}
	}
	for _, s3sim := range sims {
		for k, v := range s3sim.Fired {
			w.st.Faults[k] += v
		}
		// the S3 backend reads and writes exactly prefix+name in the configured bucket(s)
		if w.viol == nil {
			allowed := map[string]bool{}
			for _, op := range sc.Ops {
				allowed[sc.Cfg.ValD+beName(op.Key)] = true
			}
			buckets := map[string]bool{}
			for _, in := range insts {
				if in.s3 == s3sim {
					buckets[in.bucket] = true
				}
			}
			for _, c := range s3sim.Calls {
				w.st.Steps++
				if !buckets[c.Bucket] {
					w.fail("s3-wrong-bucket", "S3 %s on bucket %q, which is not a configured bucket of this client", c.Op, c.Bucket)
					break
				}
				if !allowed[c.Key] {
					w.fail("s3-wrong-object-key", "S3 %s on object %q which is not prefix(%q)+name for any name used", c.Op, c.Key, sc.Cfg.ValD)
					break
				}
				if c.Op == "delete" {
					w.fail("s3-unexpected-delete", "S3 delete of %q during store/load", c.Key)
					break
				}
			}
		}
	}
	return w
}

type beInstance struct {
	p      mast.Persist
	s3     *SimS3
	dir    string
	bucket string
	model  map[int][]byte
}

func (w *World) runBackendSequential(sc *Scenario, insts []*beInstance) {
	for i := range sc.Ops {
		op := &sc.Ops[i]
		w.opIdx = i
		w.st.Ops++
		in := insts[0]
		if op.T >= 0 && op.T < len(insts) {
			in = insts[op.T]
		}
		p, s3sim, dir, model := in.p, in.s3, in.dir, in.model
		if op.T > 0 {
			w.st.Probes["second-instance-op"]++
		}
		name := beName(op.Key)
		switch op.K {
		case "lose":
			if dir != "" {
				os.Remove(filepath.Join(dir, name))
				w.st.Faults["object-removed-behind-the-adapter"]++
			} else if s3sim != nil {
				s3sim.mu.Lock()
				delete(s3sim.objects, in.bucket+"\x00"+sc.Cfg.ValD+name)
				s3sim.mu.Unlock()
				w.st.Faults["object-removed-behind-the-adapter"]++
			}
			delete(model, op.Key)
		case "store":
			payload := bePayload(op.Val)
			target := p
			injected := false
			switch op.F {
			case "put-error":
				if s3sim != nil {
					s3sim.FailPutAt = s3sim.puts + 1
					injected = true
				}
			case "put-throttle":
				if s3sim != nil {
					s3sim.ThrottlePutAt = s3sim.puts + 1
					s3sim.ThrottleKind = op.Val/6 + op.Key
					injected = true
				}
			case "missing-dir":
				if dir != "" {
					target = mastfile.NewPersistForPath(filepath.Join(dir, "no-such-subdir"))
					injected = true
					w.st.Faults["fs-missing-directory"]++
				}
			case "base-is-file":
				if dir != "" {
					// the configured base path is a regular file: every path below it fails with ENOTDIR
					fp := filepath.Join(dir, ".not-a-directory")
					os.WriteFile(fp, []byte("x"), 0o644)
					target = mastfile.NewPersistForPath(fp)
					injected = true
					w.st.Faults["fs-base-path-is-a-file"]++
				}
			}
			r := guard(func() error { return target.Store(ctx, name, append([]byte(nil), payload...)) })
			if s3sim != nil {
				s3sim.FailPutAt, s3sim.ThrottlePutAt = 0, 0
			}
			w.st.OracleEvals++
			if r.panicked != nil {
				w.fail("store-panics/"+sc.Cfg.KeyD, "Store(%q, %d bytes): %s", name, len(payload), r)
				return
			}
			if injected && op.F == "put-throttle" && r.err == nil {
				// an adapter may retry a throttled request; then the write counts as successful and
				// must read back exactly like any other
				w.st.Probes["throttled-put-retried-by-adapter"]++
				model[op.Key] = payload
				continue
			}
			if injected {
				if r.err == nil {
					w.fail("backend-error-swallowed/store/"+sc.Cfg.KeyD+"/"+op.F, "Store(%q) returned nil although the back end failed (%s)", name, op.F)
					return
				}
				continue
			}
			if r.err != nil {
				w.fail("store-fails/"+sc.Cfg.KeyD, "Store(%q, %d bytes) on a healthy back end: %v", name, len(payload), r.err)
				return
			}
			model[op.Key] = payload
		case "load":
			injected := false
			if s3sim != nil {
				switch op.F {
				case "get-error":
					s3sim.FailGetAt = s3sim.gets + 1
					injected = true
				case "body-error":
					if _, ok := model[op.Key]; ok {
						s3sim.BodyFailAt = s3sim.gets + 1
						s3sim.BodyFailAfter = op.N
						s3sim.BodyFailKind = op.N/3 + op.Key
						injected = true
					}
				}
			}
			var got []byte
			r := guard(func() error {
				var err error
				lctx := ctx
				if op.Key%2 == 1 {
					// callers commonly work under a deadline, however distant
					var cancel context.CancelFunc
					lctx, cancel = context.WithTimeout(ctx, 24*time.Hour)
					defer cancel()
				}
				got, err = p.Load(lctx, name)
				return err
			})
			if s3sim != nil {
				s3sim.FailGetAt, s3sim.BodyFailAt = 0, 0
			}
			w.st.OracleEvals++
			if r.panicked != nil {
				w.fail("load-panics/"+sc.Cfg.KeyD, "Load(%q): %s", name, r)
				return
			}
			want, written := model[op.Key]
			switch {
			case injected:
				if r.err == nil {
					w.fail("backend-error-swallowed/load/"+sc.Cfg.KeyD+"/"+op.F, "Load(%q) returned %d bytes and no error although the back end failed (%s)", name, len(got), op.F)
					return
				}
			case !written:
				if r.err == nil {
					w.fail("load-of-unwritten-name-succeeds/"+sc.Cfg.KeyD, "Load(%q) of a name never written returned %d bytes and no error", name, len(got))
					return
				}
				w.st.Probes["load-missing-name-errors"]++
			default:
				if r.err != nil {
					w.fail("load-of-written-name-fails/"+sc.Cfg.KeyD, "Load(%q) after a successful Store: %v", name, r.err)
					return
				}
				if !bytes.Equal(got, want) {
					w.fail("load-returns-wrong-bytes/"+sc.Cfg.KeyD+"/"+payloadKind(want), "Load(%q) returned %d bytes, stored %d bytes (first difference at %d)", name, len(got), len(want), firstByteDiff(got, want))
					return
				}
				w.st.Probes["load-roundtrip-"+payloadKind(want)]++
			}
		}
	}
}

func payloadKind(b []byte) string {
	switch {
	case len(b) == 0:
		return "empty"
	case len(b) > 60000:
		return "large"
	case bytes.IndexByte(b, 0) >= 0:
		return "binary"
	}
	return "text"
}

func firstByteDiff(a, b []byte) int {
	n := len(a)
	if len(b) < n {
		n = len(b)
	}
	for i := 0; i < n; i++ {
		if a[i] != b[i] {
			return i
		}
	}
	return n
}

// ---- concurrent clients over the S3 adapter, scheduled at the SimS3 seam, checked with porcupine ----

type regInput struct {
	Store bool
	Name  int
	Val   int
}
type regOutput struct {
	Err      bool
	Injected bool // the error is the simulator's injected back-end failure coming back
	Hash     uint64
	Len      int
}

func registerModel() porcupine.Model {
	return porcupine.Model{
		Partition: func(history []porcupine.Operation) [][]porcupine.Operation {
			m := map[int][]porcupine.Operation{}
			for _, o := range history {
				k := o.Input.(regInput).Name
				m[k] = append(m[k], o)
			}
			keys := make([]int, 0, len(m))
			for k := range m {
				keys = append(keys, k)
			}
			sort.Ints(keys)
			var out [][]porcupine.Operation
			for _, k := range keys {
				out = append(out, m[k])
			}
			return out
		},
		Init: func() interface{} { return -1 }, // payload index stored, -1 = never written
		Step: func(state, input, output interface{}) (bool, interface{}) {
			st := state.(int)
			in := input.(regInput)
			out := output.(regOutput)
			if out.Injected {
				return true, st // an injected back-end failure was reported: no effect, nothing to judge
			}
			if in.Store {
				if out.Err {
					return true, st // a failed store may or may not have taken effect: keep it simple, no effect claimed
				}
				return true, in.Val
			}
			if st < 0 {
				return out.Err, st
			}
			if out.Err {
				return false, st
			}
			want := bePayload(st)
			return out.Len == len(want) && out.Hash == fnv64(want), st
		},
		Equal: func(a, b interface{}) bool { return a.(int) == b.(int) },
	}
}

type beClientKey struct{}

func (w *World) runBackendConcurrent(sc *Scenario, p mast.Persist, s3sim *SimS3, clients int) {
	s3sim.mu.Lock()
	s3sim.scheduled = true
	s3sim.mu.Unlock()
	type rec struct {
		in        regInput
		out       regOutput
		call, ret int
		client    int
	}
	// Every stamp (invoke / return sequence number) is assigned by the scheduler at
	// quiescence, in client order, so the recorded history is a pure function of the tape.
	cur := make([]*rec, clients) // in-flight record per client (written by the client before it calls)
	var recs []*rec
	var wg sync.WaitGroup
	perClient := make([][]Op, clients)
	for i, op := range sc.Ops {
		perClient[i%clients] = append(perClient[i%clients], op)
	}
	for c := 0; c < clients; c++ {
		wg.Add(1)
		go func(c int) {
			defer wg.Done()
			cctx := context.WithValue(ctx, beClientKey{}, c)
			for _, op := range perClient[c] {
				r := &rec{in: regInput{Store: op.K == "store", Name: op.Key, Val: op.Val}, client: c}
				cur[c] = r
				name := beName(op.Key)
				if op.K == "store" {
					err := p.Store(cctx, name, append([]byte(nil), bePayload(op.Val)...))
					r.out = regOutput{Err: err != nil, Injected: err != nil && isInjectedS3(err)}
				} else {
					b, err := p.Load(cctx, name)
					r.out = regOutput{Err: err != nil, Injected: err != nil && isInjectedS3(err), Hash: fnv64(b), Len: len(b)}
				}
			}
		}(c)
	}
	finished := make(chan struct{})
	go func() { wg.Wait(); close(finished) }()
	steps, seq := 0, 0
	lastReleased := -1
	var inflight = make([]*rec, clients)
	for {
		synctest.Wait()
		if lastReleased >= 0 {
			if r := inflight[lastReleased]; r != nil {
				seq++
				r.ret = seq
				recs = append(recs, r)
				inflight[lastReleased] = nil
			}
			lastReleased = -1
		}
		done := false
		select {
		case <-finished:
			done = true
		default:
		}
		if done {
			break
		}
		parked := s3sim.parkedSorted()
		if len(parked) == 0 {
			w.fail("backend-deadlock/s3", "clients neither finished nor parked in the S3 client at quiescence")
			return
		}
		for _, pk := range parked {
			if pk.client >= 0 && pk.client < clients && inflight[pk.client] == nil && cur[pk.client] != nil {
				seq++
				cur[pk.client].call = seq
				inflight[pk.client] = cur[pk.client]
			}
		}
		pk := parked[w.ch.Intn(len(parked))]
		outcome := "ok"
		if w.ch.Intn(12) == 0 {
			outcome = "fail"
		}
		w.log.Str(fmt.Sprintf("c%d:%s:%s:%s", pk.client, pk.op, pk.key, outcome))
		steps++
		lastReleased = pk.client
		s3sim.release(pk, outcome)
	}
	w.st.Steps += steps
	w.st.Ops += len(sc.Ops)
	w.st.Probes["concurrent-s3-histories"]++
	var ops []porcupine.Operation
	for _, r := range recs {
		ops = append(ops, porcupine.Operation{ClientId: r.client, Input: r.in, Call: int64(r.call), Output: r.out, Return: int64(r.ret)})
	}
	w.st.OracleEvals++
	res := porcupine.CheckOperationsTimeout(registerModel(), ops, 5*time.Second)
	switch res {
	case porcupine.Illegal:
		w.fail("concurrent-history-not-linearizable/s3", "the recorded history of %d concurrent store/load calls over the S3 adapter is not linearizable against the write-once register model", len(ops))
	case porcupine.Unknown:
		w.st.Probes["porcupine-timeout-inconclusive"]++
	}
	// injected S3 errors must have surfaced: every "fail" outcome produced an Err result
	injected := s3sim.Fired["s3-put-error"] + s3sim.Fired["s3-get-error"]
	failedCalls := 0
	for _, r := range recs {
		if r.out.Err {
			failedCalls++
		}
	}
	if failedCalls < injected {
		w.fail("backend-error-swallowed/concurrent/s3", "%d S3 calls were failed by the simulator but only %d adapter calls returned an error", injected, failedCalls)
	}
}

// RunBackendShard is the C18 shard loop.
func RunBackendShard(t *testing.T, env *ShardEnv) *ShardReport {
	rep := newShardReport(env.Prop, "backend", env.Shard, env.Tier, env.Seed)
	liveReport = rep
	start := time.Now()
	shardSeed := mixSeed(env.Seed, strSeed(env.Prop), uint64(env.Shard))
	nt := map[uint64]bool{}
	unknown := 0
	runFileConcurrency(env, rep)
	for i := 0; ; i++ {
		if (env.MaxRuns > 0 && i >= env.MaxRuns) || time.Since(start) > env.Budget {
			break
		}
		seed := mixSeed(shardSeed, uint64(i))
		if i == 0 {
			rep.FirstSeed = seed
		}
		rep.LastSeed = seed
		sc := GenBackendScenario(seed, env.Tier)
		w := RunBackendScenario(t, sc)
		rep.Evaluations++
		rep.absorb(w.st)
		if w.st.OracleEvals > 0 {
			h := newHasher()
			h.Str(sc.Cfg.KeyD + sc.Cfg.ValD + sc.Cfg.Cache)
			for _, op := range sc.Ops {
				h.Str(op.K + op.F)
				h.Int(op.Key)
				h.Int(op.Val)
			}
			nt[h.Sum()] = true
			rep.Probes["binding-"+sc.Cfg.KeyD]++
			if len(rep.Samples) < 2 {
				sc2 := sc.Clone()
				sc2.Tape = w.ch.Tape()
				rep.Samples = append(rep.Samples, mustJSON(sc2))
			}
		}
		if w.viol != nil {
			if k, ok := env.Known[w.viol.Sig]; ok {
				rep.KnownHits[w.viol.Sig]++
				rep.KnownWhat[w.viol.Sig] = k.Finding
				continue
			}
			vr := handleViolation(t, env, sc, w, RunBackendScenario)
			if vr.Replay == "" {
				rep.Truncated["violation-not-reproducible-in-fresh-process"]++
				rep.Note = "some in-process failures did not reproduce in a fresh process (state leaking between runs of one process): " + vr.Signature
				continue
			}
			rep.Violations = append(rep.Violations, vr)
			unknown++
			if unknown >= 3 {
				break
			}
		}
	}
	for h := range nt {
		rep.NonTrivial = append(rep.NonTrivial, h)
	}
	rep.WallS = time.Since(start).Seconds()
	return rep
}

func init() {
	extraEngines["backend"] = RunBackendShard
	extraReplayers["backend"] = RunBackendScenario
	propTable["C18"] = PropInfo{Engine: "backend", Level: "exploration", QuickS: 12, ThorS: 300,
		Rule: "one evaluation = one seeded store/load history over one binding (in-memory store, file store on a real scratch directory, S3 adapter over SimS3) with names from the node-name alphabet (1, 43, 64 chars), payloads empty / single NUL / binary with NUL+0xFF / 60 B / 70 KB / text, prefixes and buckets varied, injected back-end errors (S3 Put/Get error, throttling answers as RequestFailure after the body was read, body read error or connection cut after k bytes with Content-Length set, missing directory, base path that is a file, object removed behind the adapter and stored again); half of the S3 histories are run by 2-4 concurrent clients whose S3 calls are parked and released in a chooser-picked order with chooser-picked failures, and the recorded history is checked with porcupine against a write-once register model; non-trivial = at least one call judged; distinct = hash of (binding, prefix, bucket, ops)",
		Assumptions: []string{"write-once register model per (back end, name)", "porcupine v1.3.0 linearizability checker (Unknown is never reported)", "the file binding runs in-process on a real scratch directory (crash and cut-write faults of the file store are C17's subject)"},
		Components: map[string][]string{
			"real": {"in_memory_store.go", "persist/file on a real directory", "persist/s3 adapter"},
			"stub": {"SimS3 (the 3-method S3Interface: objects, recorded (bucket,key) calls, injected errors, failing bodies, parked calls)"},
		},
	}
}

var _ = strings.Contains
