package sim

import (
	"fmt"
	"sort"
)

// RNode is a node of the reference Merkle search tree.
type RNode struct {
	Level    int
	Ents     []Entry
	Children []*RNode // len(Ents)+1, nil = empty range
	Name     string
	Bytes    []byte
}

// RefTree is the unique MST determined by (entries, layers, bf) and the
// size-based height rule H = min(maxLayer, floor(log_bf(n-1))), 0 below two entries.
type RefTree struct {
	H     int
	Root  *RNode
	Names map[string]*RNode // filled by Encode
}

// refHeight computes H from n, bf and the maximum key layer.
func refHeight(n int, bf uint, maxLayer int) int {
	if n < 2 {
		return 0
	}
	lg := 0
	// floor(log_bf(n-1)): largest lg with bf^lg <= n-1
	p := uint64(bf)
	for p <= uint64(n-1) {
		lg++
		p *= uint64(bf)
	}
	if maxLayer < lg {
		return maxLayer
	}
	return lg
}

// BuildRef constructs the reference tree. layer(k) is the layer of key index k.
func BuildRef(ents []Entry, layer func(k int) int, bf uint) *RefTree {
	maxL := 0
	for _, e := range ents {
		if l := layer(e.K); l > maxL {
			maxL = l
		}
	}
	H := refHeight(len(ents), bf, maxL)
	t := &RefTree{H: H}
	if len(ents) == 0 {
		return t
	}
	t.Root = buildRange(ents, H, true, layer)
	return t
}

func buildRange(ents []Entry, level int, top bool, layer func(k int) int) *RNode {
	if len(ents) == 0 {
		return nil
	}
	n := &RNode{Level: level}
	if level == 0 {
		n.Ents = append([]Entry(nil), ents...)
		n.Children = make([]*RNode, len(ents)+1)
		return n
	}
	start := 0
	for i, e := range ents {
		l := layer(e.K)
		here := l == level || (top && l >= level)
		if !here {
			continue
		}
		n.Children = append(n.Children, buildRange(ents[start:i], level-1, false, layer))
		n.Ents = append(n.Ents, e)
		start = i + 1
	}
	n.Children = append(n.Children, buildRange(ents[start:], level-1, false, layer))
	return n
}

// Encode names every node bottom-up with the independent encoder and hash.
// body(k) / vbody(v) give the marshaled bytes of a key / value index.
func (t *RefTree) Encode(format string, kbody func(k int) []byte, vbody func(v int) []byte) {
	t.Names = map[string]*RNode{}
	var enc func(n *RNode) string
	enc = func(n *RNode) string {
		if n == nil {
			return ""
		}
		links := make([]string, len(n.Children))
		for i, c := range n.Children {
			links[i] = enc(c)
		}
		keys := make([][]byte, len(n.Ents))
		vals := make([][]byte, len(n.Ents))
		for i, e := range n.Ents {
			keys[i] = kbody(e.K)
			vals[i] = vbody(e.V)
		}
		n.Bytes = EncodeNode(format, keys, vals, links)
		n.Name = nodeName(n.Bytes)
		t.Names[n.Name] = n
		return n.Name
	}
	enc(t.Root)
}

func (t *RefTree) RootName() string {
	if t.Root == nil {
		return ""
	}
	return t.Root.Name
}

func (t *RefTree) NameSet() []string {
	out := make([]string, 0, len(t.Names))
	for n := range t.Names {
		out = append(out, n)
	}
	sort.Strings(out)
	return out
}

// ---- walking a persisted graph with the independent decoder ----

// PNode is a decoded persisted node with its keys mapped back to indexes.
type PNode struct {
	Name  string
	Level int
	KeyIx []int
	D     *DNode
	Kids  []*PNode
}

// ShapeIssue is one violated clause of the MST shape invariants (C09).
type ShapeIssue struct {
	Clause string
	Detail string
}

// WalkPersisted decodes every node reachable from root on the disk and checks
// the C09 clauses relative to the recorded height H. keyIndex maps a marshaled
// key body to its index (or false). layer gives each key's layer.
// Returns the decoded tree, the in-order entries' key indexes, the reach set,
// the issues, and a decoding error (format drift → inconclusive, not a violation).
type WalkResult struct {
	Root    *PNode
	Order   []int
	Reach   map[string]bool
	Issues  []ShapeIssue
	Entries int
	Ranges  map[string][2]int // name -> [lo,hi] rank bounds (exclusive), -1 / maxint for open
}

func WalkPersisted(load func(name string) ([]byte, bool), format string, root string, H int,
	keyIndex func(body []byte) (int, bool), rank func(k int) int, layer func(k int) int) (*WalkResult, error) {
	res := &WalkResult{Reach: map[string]bool{}, Ranges: map[string][2]int{}}
	if root == "" {
		return res, nil
	}
	const openHi = int(^uint(0) >> 1)
	issue := func(clause, f string, a ...interface{}) {
		res.Issues = append(res.Issues, ShapeIssue{clause, fmt.Sprintf(f, a...)})
	}
	var walk func(name string, level int, lo, hi int, top bool) (*PNode, error)
	walk = func(name string, level int, lo, hi int, top bool) (*PNode, error) {
		b, ok := load(name)
		if !ok {
			return nil, fmt.Errorf("node %s not in store", name)
		}
		d, err := DecodeNode(format, b)
		if err != nil {
			return nil, fmt.Errorf("node %s undecodable by the independent decoder: %w", name, err)
		}
		res.Reach[name] = true
		res.Ranges[name] = [2]int{lo, hi}
		p := &PNode{Name: name, Level: level, D: d}
		if level < 0 {
			issue("below-level-0", "node %s lies at level %d", name, level)
		}
		if len(d.Vals) != len(d.Keys) {
			issue("key-value-count", "node %s has %d keys and %d values", name, len(d.Keys), len(d.Vals))
		}
		if !d.LinksOmitted && len(d.Links) != len(d.Keys)+1 {
			issue("n-plus-1-links", "node %s has %d keys and %d link slots", name, len(d.Keys), len(d.Links))
			return p, nil
		}
		if len(d.Keys) == 0 {
			nonNil := 0
			for _, l := range d.Links {
				if l != "" {
					nonNil++
				}
			}
			if !(len(d.Links) == 1 && nonNil == 1) {
				issue("entryless-node", "node %s has no entries and %d/%d non-nil links (only single-child pass-through allowed)", name, nonNil, len(d.Links))
			}
		}
		prev := lo
		for i, kb := range d.Keys {
			ki, ok := keyIndex(kb)
			if !ok {
				return nil, fmt.Errorf("node %s key %d (%q) does not decode to a key of this run", name, i, kb)
			}
			p.KeyIx = append(p.KeyIx, ki)
			r := rank(ki)
			if r <= prev {
				issue("ascending-in-range", "node %s key #%d (rank %d) not above %d", name, i, r, prev)
			}
			if r >= hi {
				issue("ascending-in-range", "node %s key #%d (rank %d) not below range end %d", name, i, r, hi)
			}
			l := layer(ki)
			if top {
				if l < level {
					issue("key-layer", "top node %s holds key of layer %d at level %d", name, l, level)
				}
			} else if l != level {
				issue("key-layer", "node %s at level %d holds key of layer %d", name, level, l)
			}
			prev = r
		}
		if level == 0 {
			for _, l := range d.Links {
				if l != "" {
					issue("level0-has-children", "level-0 node %s has a child", name)
					break
				}
			}
		}
		// children and in-order traversal
		for i, l := range d.Links {
			clo, chi := lo, hi
			if i > 0 && i-1 < len(p.KeyIx) {
				clo = rank(p.KeyIx[i-1])
			}
			if i < len(p.KeyIx) {
				chi = rank(p.KeyIx[i])
			}
			if l != "" && level > -2 {
				kid, err := walk(l, level-1, clo, chi, false)
				if err != nil {
					return nil, err
				}
				p.Kids = append(p.Kids, kid)
			} else {
				p.Kids = append(p.Kids, nil)
			}
			if i < len(p.KeyIx) {
				res.Order = append(res.Order, p.KeyIx[i])
				res.Entries++
			}
		}
		return p, nil
	}
	r, err := walk(root, H, -1, openHi, true)
	if err != nil {
		return nil, err
	}
	res.Root = r
	return res, nil
}

// CheckCompleteness verifies "holds exactly the keys of its range whose layer is d":
// given all keys present (in order), any key of layer >= level of a node that lies in a
// child's range is misplaced. Implemented globally: a key must sit at level min(layer,H).
func (res *WalkResult) CheckLevels(H int, layer func(k int) int) {
	var visit func(p *PNode)
	visit = func(p *PNode) {
		if p == nil {
			return
		}
		for _, k := range p.KeyIx {
			want := layer(k)
			if want > H {
				want = H
			}
			if p.Level != want {
				res.Issues = append(res.Issues, ShapeIssue{"key-at-its-level", fmt.Sprintf("key index %d of layer %d sits at level %d (height %d)", k, layer(k), p.Level, H)})
			}
		}
		for _, c := range p.Kids {
			visit(c)
		}
	}
	visit(res.Root)
}

// CompareShape compares a decoded persisted tree with the reference tree.
func CompareShape(p *PNode, r *RNode) string {
	if p == nil && r == nil {
		return ""
	}
	if p == nil || r == nil {
		return fmt.Sprintf("presence differs (persisted %v, reference %v)", p != nil, r != nil)
	}
	if len(p.KeyIx) != len(r.Ents) {
		return fmt.Sprintf("node at level %d: %d keys vs reference %d", r.Level, len(p.KeyIx), len(r.Ents))
	}
	for i := range p.KeyIx {
		if p.KeyIx[i] != r.Ents[i].K {
			return fmt.Sprintf("node at level %d: key #%d differs", r.Level, i)
		}
	}
	if len(p.Kids) != len(r.Children) {
		return fmt.Sprintf("node at level %d: %d links vs reference %d", r.Level, len(p.Kids), len(r.Children))
	}
	for i := range p.Kids {
		if s := CompareShape(p.Kids[i], r.Children[i]); s != "" {
			return s
		}
	}
	return ""
}
