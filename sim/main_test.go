package sim

import (
	"encoding/hex"
	"fmt"
	"os"
	"strings"
	"testing"
	"time"
)

// TestVerif is the single entry point of the simulator binary (a test binary
// because testing/synctest needs a *testing.T). VERIF_MODE selects what it does.
func TestVerif(t *testing.T) {
	mode := os.Getenv("VERIF_MODE")
	switch mode {
	case "":
		t.Skip("VERIF_MODE not set")
	case "driver":
		code := Driver()
		os.Stdout.Sync()
		os.Exit(code)
	case "shard":
		memWatch()
		// always leave through os.Exit: in a race build the testing package would otherwise turn any
		// race report (they are read from the detector's log and judged by the thread engine) into a
		// failed test after the shard's report has been written
		code := shardMain(t)
		os.Stdout.Sync()
		os.Exit(code)
	case "replay":
		memWatch()
		os.Exit(replayMain(t))
	case "gen":
		// print one generated scenario (debugging aid)
		sc := GenScenario(os.Getenv("VERIF_PROP"), envU64("VERIF_SEED", 1), "quick")
		sc.Save("/dev/stdout")
		os.Exit(0)
	case "detrun":
		// determinism self-test: print one line per run, a pure function of (property, seed)
		props := strings.Split(os.Getenv("VERIF_PROPS"), ",")
		n := envInt("VERIF_RUNS", 40)
		base := envU64("VERIF_SEED", 7)
		for _, p := range props {
			for i := 0; i < n; i++ {
				seed := mixSeed(base, strSeed(p), uint64(i))
				var w *World
				var nops int
				switch propTable[p].Engine {
				case "history":
					sc := GenScenario(p, seed, "quick")
					nops = len(sc.Ops)
					w = RunScenario(t, sc)
				case "faultenum":
					sc := GenScenario(p, seed, "quick")
					sc.Engine = "faultenum"
					if len(sc.Ops) > 12 {
						sc.Ops = sc.Ops[:12]
					}
					sc.Extra = map[string]int{"fault_kind": i % 5, "fault_index": 1 + i%3}
					nops = len(sc.Ops)
					w = RunFaultScenario(t, sc)
				case "backend":
					sc := GenBackendScenario(seed, "quick")
					nops = len(sc.Ops)
					w = RunBackendScenario(t, sc)
				case "threads":
					sc := GenThreadScenario(seed, "quick")
					nops = len(sc.Ops)
					w = RunThreadScenario(t, sc)
				default:
					continue
				}
				th := newHasher()
				for _, v := range w.ch.Tape() {
					th.Int(v)
				}
				sig := ""
				if w.viol != nil {
					sig = w.viol.Sig
				}
				fmt.Printf("DET %s %d ops=%d log=%x tape=%x steps=%d oracle=%d trunc=%q viol=%q\n", p, seed, nops, w.log.Sum(), th.Sum(), w.st.Steps, w.st.OracleEvals, w.st.Truncated, sig)
			}
		}
		os.Exit(0)
	case "goldengen":
		if err := WriteGolden(os.Getenv("VERIF_GOLDEN_DIR"), os.Getenv("VERIF_GOLDEN_PROVENANCE")); err != nil {
			fmt.Println("goldengen:", err)
			os.Exit(2)
		}
		os.Exit(0)
	case "selftest":
		os.Exit(selftestMain(t))
	default:
		fmt.Println("unknown VERIF_MODE", mode)
		os.Exit(2)
	}
}

func shardMain(t *testing.T) int {
	prop := os.Getenv("VERIF_PROP")
	known, err := LoadKnown(knownPath())
	if err != nil {
		fmt.Println("known findings:", err)
		return 2
	}
	env := &ShardEnv{
		Prop:      prop,
		Tier:      os.Getenv("VERIF_TIER"),
		Shard:     envInt("VERIF_SHARD", 0),
		Shards:    envInt("VERIF_SHARDS", 1),
		Seed:      envU64("VERIF_SEED", 1),
		Budget:    time.Duration(envInt("VERIF_BUDGET_S", 10)) * time.Second,
		MaxRuns:   envInt("VERIF_MAX_RUNS", 0),
		Known:     known,
		ReplayDir: os.Getenv("VERIF_REPLAY_DIR"),
	}
	if env.ReplayDir == "" {
		env.ReplayDir = "/verif/replays"
	}
	info := propTable[prop]
	var rep *ShardReport
	installShardWatchdog(env, &liveReport, os.Getenv("VERIF_REPORT"))
	switch info.Engine {
	case "history":
		rep = RunHistoryShard(t, env)
	default:
		if f, ok := extraEngines[info.Engine]; ok {
			rep = f(t, env)
		} else {
			fmt.Println("no engine for", prop)
			return 2
		}
	}
	if err := writeJSON(os.Getenv("VERIF_REPORT"), rep); err != nil {
		fmt.Println("report:", err)
		return 2
	}
	return 0
}

// extraEngines are registered by the other engine files.
var extraEngines = map[string]func(*testing.T, *ShardEnv) *ShardReport{}

// extraReplayers replay scenarios of non-history engines.
var extraReplayers = map[string]func(*testing.T, *Scenario) *World{}

func knownPath() string {
	if p := os.Getenv("VERIF_KNOWN"); p != "" {
		return p
	}
	return "/verif/known_findings.jsonl"
}

func runnerFor(sc *Scenario) func(*testing.T, *Scenario) *World {
	if f, ok := extraReplayers[sc.Engine]; ok {
		return f
	}
	return RunScenario
}

func replayMain(t *testing.T) int {
	path := os.Getenv("VERIF_REPLAY")
	sc, err := LoadScenario(path)
	if err != nil {
		fmt.Println("replay:", err)
		return 2
	}
	fmt.Printf("replaying %s: property=%s engine=%s seed=%d ops=%d tape=%d\n", path, sc.Property, sc.Engine, sc.Seed, len(sc.Ops), len(sc.Tape))
	if v := envInt("VERIF_HANG_S", 0); v > 0 {
		hang.limit = time.Duration(v) * time.Second
	}
	hang.replay = true
	hang.watch()
	w := runnerFor(sc)(t, sc)
	lh := fmt.Sprintf("%x", w.log.Sum())
	if w.viol == nil {
		fmt.Printf("REPLAY-RESULT: no violation (log hash %s, recorded %s) truncated=%q\n", lh, sc.LogHash, w.st.Truncated)
		return 0
	}
	same := "log-hash-differs"
	if sc.LogHash == "" || sc.LogHash == lh {
		same = "log-hash-identical"
	}
	fmt.Printf("REPLAY-RESULT: reproduced signature=%s %s\n  at op %d: %s\n", w.viol.Sig, same, w.viol.OpIdx, w.viol.Detail)
	if sc.Signature != "" && sc.Signature != w.viol.Sig {
		fmt.Printf("  (recorded signature was %s)\n", sc.Signature)
	}
	fmt.Printf("VIOLATION property=%s replay=%s\n", sc.Property, path)
	return 1
}

func selftestMain(t *testing.T) int {
	// BLAKE2b vectors (RFC 7693 appendix A and the well-known empty-input digest)
	abc := hex.EncodeToString(blake2b([]byte("abc"), 64))
	wantABC := "ba80a53f981c4d0d6a2797b69f12f6e94c212f14685ac4b74b12bb6fdbffa2d17d87c5392aab792dc252d5de4533cc9518d38aa8dbf1925ab92386edd4009923"
	empty := hex.EncodeToString(blake2b(nil, 32))
	wantEmpty := "0e5751c026e543b2e8ab2eb06099daa1d1e5df47778f7787faab45cdf12fe3a8"
	ok := true
	if abc != wantABC {
		fmt.Println("blake2b-512(abc) mismatch:", abc)
		ok = false
	}
	if empty != wantEmpty {
		fmt.Println("blake2b-256() mismatch:", empty)
		ok = false
	}
	// multi-block
	long := make([]byte, 300)
	for i := range long {
		long[i] = byte(i)
	}
	_ = blake2b(long, 32)
	if !ok {
		return 1
	}
	fmt.Println("selftest ok")
	return 0
}
