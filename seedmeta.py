#!/usr/bin/env python3
"""Writes /verif/seeded/<name>/meta.json from confirm.log (what was run and seen) plus a 'needs' sentence."""
import json, sys, os, re
name, prop, needs = sys.argv[1], sys.argv[2], sys.argv[3]
d = f'/verif/seeded/{name}'
log = open(f'{d}/confirm.log').read().strip().splitlines()
checks = {}
for l in log:
    m = re.match(r'check (\S+): exit=(\d+) (\d+) violation line\(s\); first signature:\s*(?:signature:\s*)?(.*)', l)
    if m:
        checks[m.group(1)] = {"exit": int(m.group(2)), "violation_lines": int(m.group(3)), "first_signature": m.group(4).strip()}
meta = {
    "name": name,
    "breaks_property": prop,
    "needs_to_manifest": needs,
    "source": "written by an independent sub-agent given only the property text and a scratch worktree",
    "confirmed": [l for l in log if not l.startswith('check ')],
    "what_was_run": "seedcheck.sh: demo without patch (pass), git apply, go build, demo with patch (fail), go test ./... with patch (pass); then patch applied to /repo, ./check <prop> quick, git checkout -- .",
    "checks_against_patched_repo": checks,
    "detected_by": sorted(k for k, v in checks.items() if v["exit"] == 1),
}
json.dump(meta, open(f'{d}/meta.json', 'w'), indent=1)
print(name, meta["detected_by"])
