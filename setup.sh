#!/bin/bash
# Builds the simulator once (warms the Go build cache for both toolchains). Offline.
set -e
export GOFLAGS=-mod=mod GOPROXY=off GOSUMDB=off GOTOOLCHAIN=local
cd "$(dirname "$0")/sim"
mkdir -p ../.build
go1.26.8 test -c -tags verif -o ../.build/setup.test . 
go1.26.8 test -c -race -tags verif -o ../.build/setup-race.test . || true
rm -f ../.build/setup.test ../.build/setup-race.test
echo setup ok
