#!/bin/bash
# usage: seedcheck.sh <dir-with-patch.diff-and-demo> <name> "<props to run>"
# 1. confirms in a scratch worktree that the demo passes without the patch, fails with it, and the suite passes with it
# 2. applies the patch to /repo, runs the given checks (quick), and undoes it
export GOFLAGS=-mod=mod GOPROXY=off GOSUMDB=off GOTOOLCHAIN=local
SRC="$1"; NAME="$2"; PROPS="$3"
WT=/tmp/wt/verify-$NAME
OUT=/verif/seeded/$NAME
mkdir -p "$OUT"
git -C /repo worktree remove --force "$WT" 2>/dev/null
git -C /repo worktree add -q --detach "$WT" HEAD || exit 2
DEMO=$(ls "$SRC"/*_test.go 2>/dev/null | head -1)
DEMODIR=.
if grep -qi "persist/file" "$SRC/README.md" 2>/dev/null && grep -q "^package file" "$DEMO" 2>/dev/null; then DEMODIR=persist/file; fi
if grep -q "^package s3" "$DEMO" 2>/dev/null; then DEMODIR=persist/s3; fi
res() { echo "$1" | tee -a "$OUT/confirm.log"; }
: > "$OUT/confirm.log"
cd "$WT"
if [ -n "$DEMO" ]; then
  cp "$DEMO" "$WT/$DEMODIR/zz_seeded_demo_test.go"
  if (cd $DEMODIR && go test -count=1 -run 'TestSeeded' . >"$OUT/demo_clean.log" 2>&1); then res "demo-without-patch: PASS"; else res "demo-without-patch: FAIL (unexpected)"; fi
fi
if git apply "$SRC/patch.diff" 2>"$OUT/apply.log"; then res "patch-applies-to-HEAD: yes"; else res "patch-applies-to-HEAD: NO"; cat "$OUT/apply.log"; fi
if go build ./... 2>>"$OUT/confirm.log"; then res "builds: yes"; else res "builds: NO"; fi
if [ -n "$DEMO" ]; then
  if (cd $DEMODIR && go test -count=1 -run 'TestSeeded' . >"$OUT/demo_patched.log" 2>&1); then res "demo-with-patch: PASS (unexpected)"; else res "demo-with-patch: FAIL (expected)"; fi
  rm -f "$WT/$DEMODIR/zz_seeded_demo_test.go"
fi
if go test -count=1 ./... >"$OUT/suite_patched.log" 2>&1; then res "suite-with-patch: PASS"; else res "suite-with-patch: FAIL"; fi
cd /verif
cp "$SRC/patch.diff" "$OUT/patch.diff"
[ -n "$DEMO" ] && cp "$DEMO" "$OUT/demo_test.go.txt"
cp "$SRC/README.md" "$OUT/README.agent.md" 2>/dev/null
# run checks against the patched checkout. By default the patch is applied to /repo itself and undone
# afterwards; with SEED_SCRATCH=1 the checks are pointed at the scratch worktree instead (VERIF_REPO),
# so that long background runs that build from /repo are not disturbed.
if [ "${SEED_SCRATCH:-0}" = "1" ]; then
  (cd "$WT" && git checkout -q -- . && git clean -fdq && git apply "$SRC/patch.diff") || { res "apply to scratch failed"; exit 2; }
  for p in $PROPS; do
    VERIF_EVIDENCE_DIR="$OUT/evidence" VERIF_REPO="$WT" VERIF_BUDGET_S=${SEED_BUDGET_S:-10} /verif/check $p quick > "$OUT/check_$p.log" 2>&1
    rc=$?
    res "check $p: exit=$rc $(grep -c '^VIOLATION' "$OUT/check_$p.log") violation line(s); first signature: $(grep -m1 'signature:' "$OUT/check_$p.log")"
  done
  git -C /repo worktree remove --force "$WT"
else
  git -C /repo worktree remove --force "$WT"
  if ! git -C /repo diff --quiet; then echo "/repo dirty, abort"; exit 2; fi
  git -C /repo apply "$SRC/patch.diff" || { res "apply to /repo failed"; exit 2; }
  for p in $PROPS; do
    VERIF_EVIDENCE_DIR="$OUT/evidence" VERIF_BUDGET_S=${SEED_BUDGET_S:-10} /verif/check $p quick > "$OUT/check_$p.log" 2>&1
    rc=$?
    res "check $p: exit=$rc $(grep -c '^VIOLATION' "$OUT/check_$p.log") violation line(s); first signature: $(grep -m1 'signature:' "$OUT/check_$p.log")"
  done
  git -C /repo checkout -- .
  git -C /repo status --short | head -3
fi
