HOOK_COMMITS = ["975a966"]
NOTES = ("Deterministic simulation with fault injection. One seed (VERIF_SEED) decides every generated operation, "
         "schedule choice and fault; failures are shrunk and written to /verif/replays/*.json and replayed in a fresh "
         "process before a VIOLATION line is printed. Genuine defects found on the pinned commit are either repaired "
         "by 'fix:' commits in /repo or listed in /verif/known_findings.jsonl. See DESIGN.md.")
ENGINES = [
    {"name": "history", "path": "/verif/sim", "serves_properties": ["C01"],
     "kind_free_text": "seeded history simulator: explicit op lists over 1-4 trees, captured versions, SimDisk, SimCache, sorted-map model; every MakeRoot runs under a synctest quiescence scheduler that releases parked Store calls one at a time in a chooser-picked order"},
]
add("C01", "history", "exploration", "deterministic simulation: seeded histories vs sorted-map reference model under cache-eviction / restart residency schedules",
    "Seeded search over operation histories (all key/value dialects, branch factors, formats, cache kinds incl. evicting and chaos caches, restart and reload points) against an executable sorted-map model with the full contents re-read after every operation; failures are shrunk and replayed. Sampling, not proof.",
    "Trusts the harness model and dialect orders, SimDisk/SimCache stubs, synctest scheduling; healthy store (no fault injected into the call under judgement).", "DESIGN.md §3 C01")
for pid in ["C02","C03","C04","C05","C06","C07","C08","C09","C10","C11","C12","C13","C14","C15","C16","C17","C18","C19"]:
    NA[pid] = "check under construction in this round (engine not yet registered); see DESIGN.md §3 for the planned decision"
