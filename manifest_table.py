HOOK_COMMITS = ["975a966"]
NOTES = ("Deterministic simulation with fault injection. One seed (VERIF_SEED) decides every generated operation, "
         "schedule choice and fault; failures are shrunk and written to /verif/replays/*.json and replayed in a fresh "
         "process before a VIOLATION line is printed. Genuine defects found on the pinned commit are either repaired "
         "by 'fix:' commits in /repo or listed in /verif/known_findings.jsonl. See DESIGN.md.")
ENGINES = [
    {"name": "history", "path": "/verif/sim", "serves_properties": ["C01","C02","C03","C04","C05","C06","C07","C08","C09","C10","C13","C15","C16"],
     "kind_free_text": "seeded history simulator: explicit op lists over 1-4 trees, captured versions, SimDisk, SimCache, sorted-map model; every MakeRoot runs under a synctest quiescence scheduler that releases parked Store calls one at a time in a chooser-picked order"},
]
add("C01", "history", "exploration", "deterministic simulation: seeded histories vs sorted-map reference model under cache-eviction / restart residency schedules",
    "Seeded search over operation histories (all key/value dialects, branch factors, formats, cache kinds incl. evicting and chaos caches, restart and reload points) against an executable sorted-map model with the full contents re-read after every operation; failures are shrunk and replayed. Sampling, not proof.",
    "Trusts the harness model and dialect orders, SimDisk/SimCache stubs, synctest scheduling; healthy store (no fault injected into the call under judgement).", "DESIGN.md §3 C01")

TRUST = "Trusts the harness model and dialect orders, SimDisk/SimCache stubs, the independent codec/hash written in the harness, and synctest quiescence scheduling; sampling over seeds, not proof."
add("C02", "history", "exploration", "deterministic simulation: every captured version re-observed after every later op; cached-object fingerprint monitor; cache-kind / eviction / restart schedules",
    "Seeded histories mixing mutations, clones (incl. clone-of-clone), open cursors, persists, reloads and restarts over one disk and one shared cache (none / large ARC / 1-4 entry ARC / chooser-evicting). After every op each captured version is re-read (clones via Iter, cursors by walking, roots via fresh LoadMast with and without the shared cache) and compared with its observation at capture; every node object handed to the cache is fingerprinted (via the verif hook) and re-checked.",
    TRUST + " Needs the verif-tagged hook VerifNode to fingerprint cached objects.", "DESIGN.md §3 C02")
add("C03", "history", "exploration", "deterministic simulation: synctest-scheduled completion orders of the concurrent Stores with injected store-fail / ack-lost / stall faults, durable-set vs reachable-set oracle",
    "Every MakeRoot runs with each Persist.Store parked in SimDisk; at quiescence the seeded chooser picks which parked Store completes next and whether it succeeds, fails, or succeeds with the acknowledgement lost. Oracles: success => no Store in flight and every node reachable from the root is durable (read back after dropping all process state); any failed Store => error returned, tree contents unchanged and usable; a later success must again be complete; two disks sharing one cache; deadlock at quiescence is a violation.",
    TRUST, "DESIGN.md §3 C03")
add("C04", "history", "exploration", "deterministic simulation: persisted graph vs independently constructed reference MST; twin histories (shuffled inserts, deletes of extra keys, mid-way reload, fresh store) must return the identical root",
    "At every MakeRoot the persisted graph is decoded with the harness's own decoder and compared with the unique reference tree built from (entries, key layers, bf, size-based height rule); 'canon' ops rebuild the same contents through a different history and demand identical Root{Link,Height,Size}. Layers adversarial via a user Key type.",
    TRUST + " Key layers are taken from the library's exported layer function (the property is relative to the keys' layers).", "DESIGN.md §3 C04")
add("C05", "history", "exploration", "deterministic simulation: persist -> (JSON of Root) -> load cycles and restarts against the model, both node formats, JSON and gob marshalers, all cache kinds",
    "Seeded histories with up to dozens of persist/reload/restart cycles; each returned root is read back from the durable map and compared with the tree; each reload (direct, via JSON round trip of the Root, after restart) must reproduce entries, size, height, branch factor; the reloaded tree continues the history under the model.",
    TRUST + " Only key/value types whose encoding round-trips are generated (see DESIGN.md).", "DESIGN.md §3 C05")
add("C06", "history", "exploration", "deterministic simulation: DiffIter and StartDiff/NextEntry vs model difference over ordered pairs of live handles of any residency",
    "Diff ops over ordered pairs among working trees (dirty or clean), clones, reloaded roots, emptied and never-populated trees and a nil old side; expected sequence from the two models (only judged when both sides' actual contents equal their models); callback and cursor interface compared; stop-after-j and callback-error flavours.",
    TRUST, "DESIGN.md §3 C06")
add("C07", "history", "exploration", "deterministic simulation: DiffLinks vs reach sets observed at the disk seam, plus a replica-sync run on a second simulated disk",
    "For ordered pairs of persisted versions (ancestor/descendant, siblings, unrelated, different heights, empty, nil old) reach(old) and reach(new) are observed at the Persist seam; DiffLinks output must cover reach(new)-reach(old), stay inside reach(new), report each name once (symmetric for removed); then a replica disk holding reach(old) plus exactly the added nodes must load and iterate the new version.",
    TRUST, "DESIGN.md §3 C07")
add("C08", "history", "exploration", "deterministic simulation: write monitor on every Persist.Store with an independent BLAKE2b; determinism table; root registry",
    "Every Store call of every run passes the SimDisk monitor: name == base64url-nopad(BLAKE2b-256(bytes)) using the harness's own BLAKE2b (RFC 7693 vectors self-tested); a name never re-written with different bytes; two writes that decode to the same entries and child names must be byte-identical; same root name => same contents; re-persisting an unmodified tree returns the same name.",
    TRUST, "DESIGN.md §3 C08")
add("C09", "history", "exploration", "deterministic simulation: independent decoder walks every persisted version and checks each shape clause relative to Root.Height",
    "At every MakeRoot, every node reachable from the root is decoded with the harness's decoder and checked: level >= 0, level-0 nodes childless, keys strictly ascending inside the parent's range, key layer == node level (>= for the top node), n keys / n+1 links, no entry-less node other than single-child pass-through, Root.Size == reachable entries. Adversarial layers via user Key; delete/merge/shrink heavy histories.",
    TRUST, "DESIGN.md §3 C09")
add("C10", "history", "exploration", "deterministic simulation: cursor scripts and SeekIter probes vs a sorted list, on trees of every residency",
    "Cursor scripts (Min/Max/Ceil(probe) then a string of Forward/Backward, Get after each) and SeekIter(probe, stop-after-j) on trees that are in memory, dirty, persisted, cache-resident or evicted, incl. empty and emptied trees; compared step by step with the sorted list of the tree's entries; no call may panic.",
    TRUST + " Moves after the cursor reports 'no entry' are unspecified by the property and not judged.", "DESIGN.md §3 C10")
add("C13", "history", "exploration", "deterministic simulation: Store log of each MakeRoot vs observed reach sets, decoded key ranges of the base version and the per-key write budget; IsDirty judged after every op",
    "For every MakeRoot: stored names must be reachable from the returned root; an unmodified tree stores nothing and returns the same root; with unchanged height a re-stored node of the base version must contain a modified key in its key range and at most (2*height+2) nodes per modified key are stored; IsDirty()==false must imply contents equal to the base version (checked after every op). Includes trees of thousands of entries with small batches.",
    TRUST, "DESIGN.md §3 C13")
add("C15", "history", "exploration", "deterministic simulation: distinct names Loaded at the disk seam during DiffLinks / DiffIter / NextEntry vs 2*D+2",
    "Ordered pairs of persisted versions are loaded cache-less on the recording SimDisk; D = |reach(a) symmetric-difference reach(b)| from observed reach sets; distinct names Loaded during each diff interface must be <= 2*D+2 and 0 for the same version; includes trees of thousands of entries differing in a few keys.",
    TRUST, "DESIGN.md §3 C15")
add("C16", "history", "exploration", "deterministic simulation: distinct names Loaded at the disk seam per point operation vs the height bounds",
    "Probe ops open a persisted version cache-less on the recording SimDisk and count distinct names Loaded by LoadMast (<=1), Clone (<=1), Get (<=H+1), Insert/Delete without height change (<=2(H+1)), for present and absent keys of every layer, trees up to tens of thousands of entries.",
    TRUST, "DESIGN.md §3 C16")
for pid in ["C11","C12","C14","C17","C18","C19"]:
    NA[pid] = "check under construction in this round (engine not yet registered); see DESIGN.md §3 for the planned decision"
